//! C19 — NewlineCache: offsets -> lines/columns, span -> line extents, incremental feed.
//!
//! State-based harnesses: the pre-state is an *arbitrary* cache satisfying the representation
//! invariant I (newlines[0] == 0, strictly increasing, everything < 2^40) with a concrete number
//! of lines per instance; every offset is a solver variable.
use cfgrammar::{NewlineCache, Span};

const LIM: usize = 1 << 40;

/// An arbitrary state with exactly `K` lines: returns the cache, its line starts and trailing bytes.
fn any_state<const K: usize>(cap: usize) -> (NewlineCache, [usize; K], usize) {
    let mut nl = [0usize; K];
    let mut v = Vec::with_capacity(cap);
    v.push(0);
    let mut i = 1;
    while i < K {
        let x: usize = kani::any();
        kani::assume(x > nl[i - 1] && x < LIM);
        nl[i] = x;
        v.push(x);
        i += 1;
    }
    let trailing: usize = kani::any();
    kani::assume(trailing < LIM);
    (NewlineCache::verif_from_raw(v, trailing), nl, trailing)
}

/// Start of the line containing position `p` (p <= len).
fn line_start<const K: usize>(nl: &[usize; K], p: usize) -> usize {
    let mut r = 0;
    let mut i = 0;
    while i < K {
        if nl[i] <= p {
            r = nl[i];
        }
        i += 1;
    }
    r
}

/// End (excluding the newline) of the line containing position `p`.
fn line_end<const K: usize>(nl: &[usize; K], len: usize, p: usize) -> usize {
    let mut r = len;
    let mut i = K;
    while i > 0 {
        i -= 1;
        if nl[i] > p {
            r = nl[i] - 1;
        }
    }
    r
}

// ---- H19b: byte -> line number / line start, from any state -----------------------------------

macro_rules! h19b {
    ($name:ident, $k:expr, $unwind:expr, $witness:expr) => {
        #[kani::proof]
        #[kani::unwind($unwind)]
        pub fn $name() {
            const K: usize = $k;
            let (c, nl, trailing) = any_state::<K>(K);
            let len = nl[K - 1] + trailing;
            let b: usize = kani::any();
            let r = c.byte_to_line_num(b);
            let lb = c.byte_to_line_byte(b);
            if b > len {
                assert!(r.is_none(), "offset beyond the text: no line");
                assert!(lb.is_none(), "offset beyond the text: no line start");
            } else {
                let mut cnt = 0;
                let mut i = 0;
                while i < K {
                    if nl[i] <= b {
                        cnt += 1;
                    }
                    i += 1;
                }
                assert!(r == Some(cnt), "line = 1 + newlines before the offset");
                assert!(lb == Some(line_start::<K>(&nl, b)), "line start of the offset");
            }
            kani::cover!(b <= len && K > 1 && b == nl[K - 1], "offset exactly at the last line start");
            kani::cover!(b == len && trailing > 0, "offset at end of text");
            kani::cover!(b > len, "offset beyond the text");
            if $witness {
                assert!(false, "reachability witness");
            }
            std::mem::forget(c);
        }
    };
}
h19b!(c19_line_k1, 1, 4, false);
h19b!(c19_line_k2, 2, 5, false);
h19b!(c19_line_k3, 3, 6, false);
h19b!(c19_line_k4, 4, 7, false);
h19b!(c19_line_k5, 5, 8, false);
h19b!(c19_line_k6, 6, 9, false);
h19b!(c19_line_k7, 7, 10, false);
h19b!(c19_line_k8, 8, 11, false);
h19b!(c19_line_k10, 10, 13, false);
h19b!(c19_line_k12, 12, 15, false);
h19b!(c19_line_witness, 3, 6, true);

// ---- H19c: span -> (start of first line, end of last line), from any state --------------------

macro_rules! h19c {
    ($name:ident, $k:expr, $unwind:expr) => {
        #[kani::proof]
        #[kani::unwind($unwind)]
        pub fn $name() {
            const K: usize = $k;
            let (c, nl, trailing) = any_state::<K>(K);
            let len = nl[K - 1] + trailing;
            let s: usize = kani::any();
            let e: usize = kani::any();
            kani::assume(s <= e && e <= len);
            let (st, en) = c.span_line_bytes(Span::new(s, e));
            assert!(st == line_start::<K>(&nl, s), "start of the line containing the span's first byte");
            // End: of the line containing position `end` (what the existing spanlines_str test pins), or,
            // for a non-empty span, of the line containing its last byte `end - 1` (the property's
            // wording).  Either is accepted.
            let a = line_end::<K>(&nl, len, e);
            let b = if e > s { line_end::<K>(&nl, len, e - 1) } else { a };
            assert!(en == a || en == b, "end of the line containing the span's end");
            assert!(st <= en && en <= len, "extent within the text");
            kani::cover!(K > 2 && s >= nl[1] && e == nl[K - 1], "span from line >= 2 ending at the last line start");
            kani::cover!(K > 2 && s >= nl[1] && e == nl[K - 2] && e > s, "span ending at an inner line start");
            kani::cover!(e == len, "span ending at end of text");
            kani::cover!(s == e, "empty span");
            std::mem::forget(c);
        }
    };
}
h19c!(c19_span_k1, 1, 4);
h19c!(c19_span_k2, 2, 5);
h19c!(c19_span_k3, 3, 6);
h19c!(c19_span_k4, 4, 7);
h19c!(c19_span_k5, 5, 8);
h19c!(c19_span_k6, 6, 9);
h19c!(c19_span_k7, 7, 10);
h19c!(c19_span_k8, 8, 11);
h19c!(c19_span_k10, 10, 13);
h19c!(c19_span_k12, 12, 15);

// ---- texts ---------------------------------------------------------------------------------------

/// A text of `N` characters whose byte widths `w` are concrete per instance (so every length is
/// concrete): a width-1 position is a symbolic character from {a, LF, CR}; a wider position is a
/// fixed character of that width (e-acute, euro sign, an emoji) -- the code under test distinguishes
/// only LF, CR and the width.  Returns the bytes and the byte offset of each character boundary.
fn any_text<const N: usize, const B: usize>(w: [u8; N]) -> ([u8; B], [usize; 8]) {
    let mut buf = [0u8; B];
    let mut bounds = [0usize; 8];
    let mut len = 0usize;
    let mut i = 0;
    while i < N {
        bounds[i] = len;
        match w[i] {
            1 => {
                let c: u8 = kani::any();
                kani::assume(c < 3);
                buf[len] = if c == 0 {
                    b'a'
                } else if c == 1 {
                    b'\n'
                } else {
                    b'\r'
                };
                len += 1;
            }
            2 => {
                buf[len] = 0xC3;
                buf[len + 1] = 0xA9;
                len += 2;
            }
            3 => {
                buf[len] = 0xE2;
                buf[len + 1] = 0x82;
                buf[len + 2] = 0xAC;
                len += 3;
            }
            _ => {
                buf[len] = 0xF0;
                buf[len + 1] = 0x9F;
                buf[len + 2] = 0x98;
                buf[len + 3] = 0x80;
                len += 4;
            }
        }
        i += 1;
    }
    bounds[N] = len;
    (buf, bounds)
}

// ---- H19a: feed is one inductive step ------------------------------------------------------------

macro_rules! h19a {
    ($name:ident, $k:expr, $w:expr, $n:expr, $b:expr, $unwind:expr) => {
        #[kani::proof]
        #[kani::unwind($unwind)]
        pub fn $name() {
            const K: usize = $k;
            const N: usize = $n;
            const B: usize = $b;
            let (mut c, nl, trailing) = any_state::<K>(K + N + 1);
            let start = nl[K - 1] + trailing;
            let (buf, _) = any_text::<N, B>($w);
            let s = unsafe { std::str::from_utf8_unchecked(&buf[..]) };
            c.feed(s);
            let (got, got_trailing) = c.verif_raw();
            // expected post-state: pre ++ [start + off + 1 | LF at byte off]
            let mut exp = [0usize; K + N];
            let mut m = 0;
            while m < K {
                exp[m] = nl[m];
                m += 1;
            }
            let mut tr = trailing;
            let mut off = 0;
            while off < B {
                if buf[off] == b'\n' {
                    exp[m] = start + off + 1;
                    m += 1;
                    tr = 0;
                } else {
                    tr += 1;
                }
                off += 1;
            }
            assert!(got.len() == m, "one line start per newline fed");
            let mut i = 0;
            while i < K + N {
                if i < m {
                    assert!(got[i] == exp[i], "line start = offset after the newline");
                }
                if i > 0 && i < m {
                    assert!(got[i] > got[i - 1], "line starts strictly increasing");
                }
                i += 1;
            }
            assert!(got_trailing == tr, "trailing bytes = bytes after the last newline");
            kani::cover!(m > K, "a newline fed");
            kani::cover!(m == K, "no newline fed");
            std::mem::forget(c);
        }
    };
}
// name, lines in the pre-state, widths, chars, bytes, unwind (= max(K + N, B) + 2)
h19a!(c19_feed_k1_w1, 1, [1], 1, 1, 4);
h19a!(c19_feed_k2_w11, 2, [1, 1], 2, 2, 6);
h19a!(c19_feed_k1_w111, 1, [1, 1, 1], 3, 3, 6);
h19a!(c19_feed_k2_w21, 2, [2, 1], 2, 3, 6);
h19a!(c19_feed_k2_w13, 2, [1, 3], 2, 4, 6);
h19a!(c19_feed_k3_w141, 3, [1, 4, 1], 3, 6, 8);
h19a!(c19_feed_k3_w1111, 3, [1, 1, 1, 1], 4, 4, 9);
h19a!(c19_feed_k2_w1211, 2, [1, 2, 1, 1], 4, 5, 8);

// ---- H19d: line and column of every character boundary of a text -------------------------------

macro_rules! h19d {
    ($name:ident, $w:expr, $n:expr, $b:expr, $split:expr, $unwind:expr) => {
        #[kani::proof]
        #[kani::unwind($unwind)]
        pub fn $name() {
            const N: usize = $n;
            const B: usize = $b;
            let (buf, bounds) = any_text::<N, B>($w);
            let len = B;
            let s = unsafe { std::str::from_utf8_unchecked(&buf[..]) };
            // fed in two pieces split at character boundary `$split` (0 = in one piece)
            let sb = bounds[$split];
            let mut c = NewlineCache::new();
            if sb > 0 {
                c.feed(unsafe { std::str::from_utf8_unchecked(&buf[..sb]) });
            }
            c.feed(unsafe { std::str::from_utf8_unchecked(&buf[sb..]) });
            // an arbitrary character-boundary offset (including the end of the text)
            let oi: usize = kani::any();
            kani::assume(oi <= N);
            let off = bounds[oi];
            let r = c.byte_to_line_num_and_col_num(s, off);
            // reference: scan the bytes
            let mut line = 1;
            let mut ls = 0;
            let mut i = 0;
            while i < B {
                if i < off && buf[i] == b'\n' {
                    line += 1;
                    ls = i + 1;
                }
                i += 1;
            }
            let mut chars = 0;
            let mut i = 0;
            while i < B {
                if i >= ls && i < off && (buf[i] & 0xC0) != 0x80 {
                    chars += 1;
                }
                i += 1;
            }
            let at_lf_of_crlf = off < len && buf[off] == b'\n' && off > ls && buf[off - 1] == b'\r';
            match r {
                None => assert!(false, "an offset within the text has a position"),
                Some((l, col)) => {
                    assert!(l == line, "line = 1 + newlines before the offset");
                    if at_lf_of_crlf {
                        // the LF of a CR LF pair: the pair counts once; either half's column accepted
                        assert!(col == chars + 1 || col == chars, "column (LF of CR LF)");
                    } else {
                        assert!(col == chars + 1, "column = 1 + characters since the line began");
                    }
                }
            }
            assert!(c.byte_to_line_num(off) == Some(line), "line query agrees");
            assert!(c.byte_to_line_num_and_col_num(s, len + 1).is_none(), "beyond the text: none");
            kani::cover!(at_lf_of_crlf, "offset at the LF of a CR LF pair");
            kani::cover!(off == len && line > 1, "offset at end of text after a newline");
            kani::cover!(chars > 0 && line > 1, "character on a later line");
            std::mem::forget(c);
        }
    };
}
// name, widths, chars, bytes, split, unwind (= B + 2)
h19d!(c19_col_w11, [1, 1], 2, 2, 0, 4);
h19d!(c19_col_w111, [1, 1, 1], 3, 3, 0, 5);
h19d!(c19_col_w111_s1, [1, 1, 1], 3, 3, 1, 5);
h19d!(c19_col_w121, [1, 2, 1], 3, 4, 0, 6);
h19d!(c19_col_w1111, [1, 1, 1, 1], 4, 4, 0, 6);
h19d!(c19_col_w1111_s2, [1, 1, 1, 1], 4, 4, 2, 6);
h19d!(c19_col_w1311, [1, 3, 1, 1], 4, 6, 0, 8);
h19d!(c19_col_w1141, [1, 1, 4, 1], 4, 7, 3, 9);
h19d!(c19_col_w11111, [1, 1, 1, 1, 1], 5, 5, 0, 7);

// ---- H19e / H19f: the lexer-level queries built on the cache -----------------------------------

use lrlex::{DefaultLexerTypes, LRNonStreamingLexer};
use lrpar::NonStreamingLexer;
use std::str::FromStr;

macro_rules! h19e {
    ($name:ident, $w:expr, $n:expr, $b:expr, $unwind:expr) => {
        /// `NonStreamingLexer::span_lines_str` of lrlex's lexer object, for every span of character
        /// boundaries of a symbolic text.
        #[kani::proof]
        #[kani::unwind($unwind)]
        pub fn $name() {
            const N: usize = $n;
            const B: usize = $b;
            let (buf, bounds) = any_text::<N, B>($w);
            let s = unsafe { std::str::from_utf8_unchecked(&buf[..]) };
            let cache = NewlineCache::from_str(s).unwrap();
            let lexer: LRNonStreamingLexer<DefaultLexerTypes<u8>> = LRNonStreamingLexer::new(s, Vec::new(), cache);
            let si: usize = kani::any();
            let ei: usize = kani::any();
            kani::assume(si <= ei && ei <= N);
            let (st, en) = (bounds[si], bounds[ei]);
            let mut ls = 0; // start of the line containing st
            let mut i = 0;
            while i < B {
                if buf[i] == b'\n' && i < st {
                    ls = i + 1;
                }
                i += 1;
            }
            // end (excluding the newline) of the line containing position en / byte en - 1
            let mut end_a = B;
            let mut end_b = B;
            let mut i = B;
            while i > 0 {
                i -= 1;
                if buf[i] == b'\n' {
                    if i >= en {
                        end_a = i;
                    }
                    if en > st && i >= en - 1 {
                        end_b = i;
                    }
                }
            }
            if en == st {
                end_b = end_a;
            }
            let got = lexer.span_lines_str(cfgrammar::Span::new(st, en));
            let off = unsafe { got.as_ptr().offset_from(s.as_ptr()) } as usize;
            assert!(off == ls, "lines of a span start at the start of its first line");
            assert!(off + got.len() == end_a || off + got.len() == end_b, "lines of a span end at the end of its last line");
            kani::cover!(got.len() > en - st, "lines longer than the span");
            kani::cover!(en == B && st < en, "span ending at end of text");
            std::mem::forget(lexer);
        }
    };
}

macro_rules! h19f {
    ($name:ident, $w:expr, $n:expr, $b:expr, $unwind:expr) => {
        /// `NonStreamingLexer::line_col` of lrlex's lexer object: line and column of both ends of every
        /// span, and independence of a position's line/column from the span it is an end of.
        #[kani::proof]
        #[kani::unwind($unwind)]
        pub fn $name() {
            const N: usize = $n;
            const B: usize = $b;
            let (buf, bounds) = any_text::<N, B>($w);
            let s = unsafe { std::str::from_utf8_unchecked(&buf[..]) };
            let cache = NewlineCache::from_str(s).unwrap();
            let lexer: LRNonStreamingLexer<DefaultLexerTypes<u8>> = LRNonStreamingLexer::new(s, Vec::new(), cache);
            let si: usize = kani::any();
            let ei: usize = kani::any();
            kani::assume(si <= ei && ei <= N);
            let (st, en) = (bounds[si], bounds[ei]);
            let mut ls = 0;
            let mut line_s = 1;
            let mut ls_e = 0;
            let mut line_e = 1;
            let mut i = 0;
            while i < B {
                if buf[i] == b'\n' {
                    if i < st {
                        ls = i + 1;
                        line_s += 1;
                    }
                    if i < en {
                        ls_e = i + 1;
                        line_e += 1;
                    }
                }
                i += 1;
            }
            let mut ch_s = 0;
            let mut ch_e = 0;
            let mut i = 0;
            while i < B {
                if (buf[i] & 0xC0) != 0x80 {
                    if i >= ls && i < st {
                        ch_s += 1;
                    }
                    if i >= ls_e && i < en {
                        ch_e += 1;
                    }
                }
                i += 1;
            }
            let lf_s = st < B && buf[st] == b'\n' && st > ls && buf[st - 1] == b'\r';
            let lf_e = en < B && buf[en] == b'\n' && en > ls_e && buf[en - 1] == b'\r';
            let ((l1, c1), (l2, c2)) = lexer.line_col(cfgrammar::Span::new(st, en));
            assert!(l1 == line_s && l2 == line_e, "line numbers of both ends of the span");
            // columns: 1 + characters since the line began; at the LF of a CR LF pair either half's column
            assert!(c1 == ch_s + 1 || (lf_s && c1 == ch_s), "column of the span's start");
            assert!(c2 == ch_e + 1 || (lf_e && c2 == ch_e), "column of the span's end");
            // a position's line and column do not depend on which span it is an end of
            let (p_end, _) = lexer.line_col(cfgrammar::Span::new(en, en));
            assert!(p_end == (l2, c2), "the same offset has the same line and column as a span end and as a span start");
            kani::cover!(line_e > line_s, "span over more than one line");
            kani::cover!(lf_e, "opt: span ending at the LF of a CR LF pair");
            std::mem::forget(lexer);
        }
    };
}
h19e!(c19_lex_w11, [1, 1], 2, 2, 4);
h19e!(c19_lex_w111, [1, 1, 1], 3, 3, 5);
h19e!(c19_lex_w121, [1, 2, 1], 3, 4, 6);
h19f!(c19_lexcol_w11, [1, 1], 2, 2, 4);
h19f!(c19_lexcol_w111, [1, 1, 1], 3, 3, 5);
h19f!(c19_lexcol_w12, [1, 2], 2, 3, 5);
h19f!(c19_lexcol_w21, [2, 1], 2, 3, 5);
