//! Kani harnesses over the real grmtools crates (path dependencies on /repo).
#![allow(clippy::all)]
#![allow(dead_code)]

#[cfg(kani)]
pub mod c03;
#[cfg(kani)]
pub mod c19;
#[cfg(kani)]
pub mod c17;
#[cfg(kani)]
pub mod c12;
#[cfg(kani)]
pub mod c10txt;

// Filled in by bin/check with Kani's concrete-playback test when a counterexample is replayed
// natively; empty between runs.
#[cfg(kani)]
mod playback_gen;
