//! C10 — the text the regex-free scanners hand to the grammar: the unescaped content of a quoted
//! string (quoted tokens, %epp strings), the code of an action, the rest of a line, the text before
//! a single colon.  Each real scanner is compared, on symbolic texts, with a reference written on
//! bytes from the lexical conventions: same offset and same text, or the same error at the same place.
use crate::c12::{any_text_mb, fixed_rs, Mb, MB_PLAIN};
use cfgrammar::yacc::parser::verif as yp;

/// (offset after the construct, text bytes, text length) or (error kind, error position).
type Exp<const B: usize> = Result<(usize, [u8; B], usize), (u8, usize)>;

fn is_blank(c: u8) -> bool {
    c == b' ' || c == b'\t' || c == b'\n' || c == b'\r' || c == 0x0b || c == 0x0c
}

/// b[lo..hi] without leading and trailing ASCII white space, copied to the front of a buffer.
fn trimmed<const B: usize>(b: &[u8; B], lo: usize, hi: usize) -> ([u8; B], usize) {
    let mut lo = lo;
    let mut hi = hi;
    let mut g = 0;
    while g <= B && lo < hi && is_blank(b[lo]) {
        lo += 1;
        g += 1;
    }
    let mut g = 0;
    while g <= B && lo < hi && is_blank(b[hi - 1]) {
        hi -= 1;
        g += 1;
    }
    copy_range(b, lo, hi)
}

fn copy_range<const B: usize>(b: &[u8; B], lo: usize, hi: usize) -> ([u8; B], usize) {
    let mut out = [0u8; B];
    let mut k = 0;
    while k < B {
        if lo + k < hi {
            out[k] = b[lo + k];
        }
        k += 1;
    }
    (out, if hi > lo { hi - lo } else { 0 })
}

/// A quoted string: opens with ' or ", closes with the same quote; a backslash may only precede a
/// quote character (either one) and stands for it; a line end inside is an error.
fn ref_string<const B: usize>(b: &[u8; B], i: usize) -> Exp<B> {
    if i >= B || (b[i] != b'\'' && b[i] != b'"') {
        return Err((yp::INVALID_STRING, i));
    }
    let qc = b[i];
    let mut out = [0u8; B];
    let mut n = 0;
    let mut j = i + 1;
    let mut g = 0;
    while j < B && g <= B {
        g += 1;
        let c = b[j];
        if c == b'\n' || c == b'\r' {
            return Err((yp::INVALID_STRING, j));
        }
        if c == qc {
            return Ok((j + 1, out, n));
        }
        if c == b'\\' {
            if j + 1 < B && (b[j + 1] == b'\'' || b[j + 1] == b'"') {
                out[n] = b[j + 1];
                n += 1;
                j += 2;
            } else {
                return Err((yp::INVALID_STRING, j));
            }
        } else {
            out[n] = c;
            n += 1;
            j += 1;
        }
    }
    Err((yp::INVALID_STRING, j))
}

/// An action: from the `{` at i to its matching `}` (braces nest); its code is what lies between,
/// without surrounding white space.
fn ref_action<const B: usize>(b: &[u8; B], i: usize) -> Exp<B> {
    let mut depth = 0usize;
    let mut j = i;
    while j < B {
        if b[j] == b'{' {
            depth += 1;
        } else if b[j] == b'}' {
            if depth == 1 {
                let (t, n) = trimmed(b, i + 1, j);
                return Ok((j + 1, t, n));
            }
            depth -= 1;
        }
        j += 1;
    }
    Err((yp::INCOMPLETE_ACTION, i))
}

/// The rest of the line: up to, not including, the first LF or CR (or the end of the text).
fn ref_eol<const B: usize>(b: &[u8; B], i: usize) -> Exp<B> {
    let mut j = i;
    while j < B && b[j] != b'\n' && b[j] != b'\r' {
        j += 1;
    }
    let (t, n) = copy_range(b, i, j);
    Ok((j, t, n))
}

/// Up to, not including, the first colon that is not part of a `::` pair; its text without
/// surrounding white space; no such colon is an error at the end of the text.
fn ref_colon<const B: usize>(b: &[u8; B], i: usize) -> Exp<B> {
    let mut j = i;
    let mut g = 0;
    while j < B && g <= B {
        g += 1;
        if b[j] == b':' {
            if j + 1 == B || b[j + 1] != b':' {
                let (t, n) = trimmed(b, i, j);
                return Ok((j, t, n));
            }
            j += 2;
        } else {
            j += 1;
        }
    }
    Err((yp::REACHED_EOL, j))
}

macro_rules! c10_txt {
    ($name:ident, $f:path, $reff:ident, $pre:expr, $npre:expr, $w:expr, $n:expr, $b:expr, $alpha:expr, $na:expr, $fixed_start:expr, $unwind:expr, $witness:expr) => {
        #[kani::proof]
        #[kani::unwind($unwind)]
        #[kani::stub(std::hash::RandomState::new, fixed_rs)]
        pub fn $name() {
            let mb: Mb = MB_PLAIN;
            let (buf, bounds) = any_text_mb::<{ $npre }, { $n }, { $b }, { $na }>($pre, $w, $alpha, mb);
            let s = unsafe { std::str::from_utf8_unchecked(&buf[..]) };
            let i = if $fixed_start {
                0
            } else {
                let oi: usize = kani::any();
                kani::assume(oi <= $npre + $n);
                bounds[oi]
            };
            let exp = $reff::<{ $b }>(&buf, i);
            let got = $f(s, i);
            match (&got, &exp) {
                (Ok((j, text)), Ok((rj, rt, rn))) => {
                    assert!(*j == *rj, "same offset as the reference");
                    let tb = text.as_bytes();
                    assert!(tb.len() == *rn, "text of the same length as the reference");
                    let mut k = 0;
                    while k < $b {
                        if k < *rn && k < tb.len() {
                            assert!(tb[k] == rt[k], "same text as the reference");
                        }
                        k += 1;
                    }
                }
                (Err((k, a, _)), Err((rk, ra))) => {
                    assert!(*k == *rk, "same error kind as the reference");
                    assert!(*a == *ra, "same error position as the reference");
                }
                (Ok(_), Err(_)) => assert!(false, "accepted what the reference rejects"),
                (Err(_), Ok(_)) => assert!(false, "rejected what the reference accepts"),
            }
            kani::cover!(matches!(exp, Ok((_, _, n)) if n >= 1), "a non-empty text");
            kani::cover!(exp.is_err(), "opt: rejected");
            if $witness {
                assert!(false, "reachability witness");
            }
            std::mem::forget(got);
        }
    };
}

const STR_T: [u8; 6] = [b'\'', b'"', b'\\', b'\n', b'a', b'b'];
const ACT_T: [u8; 6] = [b'{', b'}', b'\n', b'a', b' ', b'b'];
const EOL_T: [u8; 4] = [b'a', b'\n', b'\r', b'b'];
const COL_T: [u8; 5] = [b':', b'a', b'\n', b' ', b'b'];

// name, real scanner, reference, concrete prefix, its length, widths, chars, total bytes, alphabet, its size,
// fixed start, unwind (= bytes + 2), witness
c10_txt!(c10_str_q3, yp::parse_string_text, ref_string, [b'\''], 1, [1, 1, 1], 3, 4, STR_T, 6, true, 6, false);
c10_txt!(c10_str_d3, yp::parse_string_text, ref_string, [b'"'], 1, [1, 1, 1], 3, 4, STR_T, 6, true, 6, false);
c10_txt!(c10_str_q4, yp::parse_string_text, ref_string, [b'\''], 1, [1, 1, 1, 1], 4, 5, STR_T, 6, true, 7, false);
c10_txt!(c10_str_qmb, yp::parse_string_text, ref_string, [b'"'], 1, [1, 2, 1, 1], 4, 6, STR_T, 6, true, 8, false);
c10_txt!(c10_str_q5, yp::parse_string_text, ref_string, [b'\''], 1, [1, 1, 1, 1, 1], 5, 6, STR_T, 6, true, 8, false);
c10_txt!(c10_str_f3, yp::parse_string_text, ref_string, [], 0, [1, 1, 1], 3, 3, STR_T, 6, false, 5, false);
c10_txt!(c10_act_b3, yp::parse_action_text, ref_action, [b'{'], 1, [1, 1, 1], 3, 4, ACT_T, 6, true, 6, false);
c10_txt!(c10_act_b4, yp::parse_action_text, ref_action, [b'{'], 1, [1, 1, 1, 1], 4, 5, ACT_T, 6, true, 7, false);
c10_txt!(c10_act_mb, yp::parse_action_text, ref_action, [b'{'], 1, [1, 3, 1, 1], 4, 7, ACT_T, 6, true, 9, false);
c10_txt!(c10_act_b5, yp::parse_action_text, ref_action, [b'{'], 1, [1, 1, 1, 1, 1], 5, 6, ACT_T, 6, true, 8, false);
c10_txt!(c10_eol_f3, yp::parse_to_eol_text, ref_eol, [], 0, [1, 1, 1], 3, 3, EOL_T, 4, false, 5, false);
c10_txt!(c10_eol_mb, yp::parse_to_eol_text, ref_eol, [], 0, [1, 2, 1, 1], 4, 5, EOL_T, 4, false, 7, false);
c10_txt!(c10_eol_f5, yp::parse_to_eol_text, ref_eol, [], 0, [1, 1, 1, 1, 1], 5, 5, EOL_T, 4, false, 7, false);
c10_txt!(c10_col_f3, yp::parse_to_single_colon_text, ref_colon, [], 0, [1, 1, 1], 3, 3, COL_T, 5, false, 5, false);
c10_txt!(c10_col_f4, yp::parse_to_single_colon_text, ref_colon, [], 0, [1, 1, 1, 1], 4, 4, COL_T, 5, false, 6, false);
c10_txt!(c10_col_mb, yp::parse_to_single_colon_text, ref_colon, [], 0, [1, 3, 1, 1], 4, 6, COL_T, 5, false, 8, false);
c10_txt!(c10_col_f5, yp::parse_to_single_colon_text, ref_colon, [], 0, [1, 1, 1, 1, 1], 5, 5, COL_T, 5, false, 7, false);
c10_txt!(c10_txt_witness, yp::parse_string_text, ref_string, [b'\''], 1, [1, 1], 2, 3, STR_T, 6, true, 5, true);

/// parse_int (the numbers of %expect / %expect-rr): the run of ASCII digits at i, read exactly; no
/// digit at i is an error there.
macro_rules! c10_int {
    ($name:ident, $w:expr, $n:expr, $b:expr, $unwind:expr) => {
        #[kani::proof]
        #[kani::unwind($unwind)]
        #[kani::stub(std::hash::RandomState::new, fixed_rs)]
        pub fn $name() {
            let (buf, bounds) = any_text_mb::<0, { $n }, { $b }, 5>([], $w, INT_T, crate::c12::MB_DIGIT);
            let s = unsafe { std::str::from_utf8_unchecked(&buf[..]) };
            let oi: usize = kani::any();
            kani::assume(oi <= $n);
            let i = bounds[oi];
            let mut j = i;
            let mut v: usize = 0;
            while j < $b && buf[j] >= b'0' && buf[j] <= b'9' {
                v = v * 10 + (buf[j] - b'0') as usize;
                j += 1;
            }
            match yp::parse_int_usize(s, i) {
                Ok((gj, x)) => {
                    assert!(j > i, "a number needs at least one digit");
                    assert!(gj == j, "the whole run of digits and nothing else is consumed");
                    assert!(x == v, "value read exactly");
                }
                Err((k, a, _)) => {
                    assert!(j == i, "a run of digits this short is a number");
                    assert!(k == yp::ILLEGAL_INTEGER && a == i, "located integer error");
                }
            }
            kani::cover!(j >= i + 2, "two or more digits");
            kani::cover!(j == i && i < $b, "no digit at the start");
        }
    };
}
const INT_T: [u8; 5] = [b'0', b'9', b'5', b'a', b' '];
c10_int!(c10_int_f3, [1, 1, 1], 3, 3, 5);
c10_int!(c10_int_mb, [1, 2, 1, 1], 4, 5, 7);
c10_int!(c10_int_f5, [1, 1, 1, 1, 1], 5, 5, 7);
