//! C03 — shift/reduce decision kernel and action encoding.
use cfgrammar::{
    PIdx, RIdx, Symbol, TIdx,
    yacc::{AssocKind, Precedence, YaccGrammar},
};
use lrtable::{Action, StIdx, StateTable};

fn any_prec() -> Option<Precedence> {
    if kani::any() {
        let level: u64 = kani::any();
        let k: u8 = kani::any();
        kani::assume(k < 3);
        Some(Precedence {
            level,
            kind: match k {
                0 => AssocKind::Left,
                1 => AssocKind::Right,
                _ => AssocKind::Nonassoc,
            },
        })
    } else {
        None
    }
}

macro_rules! resolve_sr {
    ($name:ident, $grm:ident, $t:ty, $witness:expr) => {
        /// `E: E '+' E | 'n';` with the token's and the first production's precedence supplied.
        fn $grm(tp: Option<Precedence>, pp: Option<Precedence>) -> YaccGrammar<$t> {
            let prods = vec![
                vec![
                    Symbol::Rule(RIdx(1 as $t)),
                    Symbol::Token(TIdx(0)),
                    Symbol::Rule(RIdx(1)),
                ],
                vec![Symbol::Token(TIdx(1))],
                vec![Symbol::Rule(RIdx(1))],
            ];
            let prods_rules = vec![RIdx(1 as $t), RIdx(1), RIdx(0)];
            YaccGrammar::<$t>::verif_from_parts(
                2,
                3,
                prods,
                prods_rules,
                vec![tp, None, None],
                vec![pp, None, None],
                PIdx(2),
            )
        }

        #[kani::proof]
        #[kani::unwind(5)]
        pub fn $name() {
            let tp = any_prec();
            let pp = any_prec();
            // One declaration line has one kind: two precedences of equal level and different kind
            // cannot come from a .y file (and reach an explicit `panic!("Not supported.")`).
            if let (Some(a), Some(b)) = (tp, pp) {
                kani::assume(a.level != b.level || a.kind == b.kind);
            }
            let g = $grm(tp, pp);
            let target: $t = kani::any();
            let cst: $t = kani::any();
            let mut actions = [
                StateTable::<$t>::verif_encode(Action::Reduce(PIdx(1))),
                StateTable::<$t>::verif_encode(Action::Reduce(PIdx(0))),
                StateTable::<$t>::verif_encode(Action::Reduce(PIdx(1))),
            ];
            let mut sr = Vec::new();
            StateTable::<$t>::verif_resolve_shift_reduce(
                &g,
                &mut actions,
                1,
                TIdx(0),
                PIdx(0),
                StIdx(target),
                &mut sr,
                StIdx(cst),
            );
            let a = StateTable::<$t>::verif_decode(actions[1]);
            let shift = Action::Shift(StIdx(target));
            let reduce = Action::Reduce(PIdx(0));
            match (tp, pp) {
                (None, _) | (_, None) => {
                    assert!(a == shift, "default: shift");
                    assert!(sr.len() == 1, "default resolution is recorded");
                    assert!(sr[0] == (TIdx(0), PIdx(0), StIdx(cst)), "recorded triple");
                }
                (Some(t), Some(p)) => {
                    assert!(sr.len() == 0, "precedence-resolved conflicts are not recorded");
                    if t.level > p.level {
                        assert!(a == shift, "higher token level: shift");
                    } else if t.level < p.level {
                        assert!(a == reduce, "lower token level: reduce");
                    } else {
                        match t.kind {
                            AssocKind::Left => assert!(a == reduce, "left: reduce"),
                            AssocKind::Right => assert!(a == shift, "right: shift"),
                            AssocKind::Nonassoc => assert!(a == Action::Error, "nonassoc: error"),
                        }
                    }
                }
            }
            // neighbouring cells untouched
            assert!(StateTable::<$t>::verif_decode(actions[0]) == Action::Reduce(PIdx(1)));
            assert!(StateTable::<$t>::verif_decode(actions[2]) == Action::Reduce(PIdx(1)));
            kani::cover!(a == Action::Error, "nonassoc resolution reached");
            kani::cover!(a == shift && sr.len() == 0, "precedence-resolved shift reached");
            kani::cover!(a == reduce, "reduce kept");
            kani::cover!(sr.len() == 1, "default resolution reached");
            if $witness {
                assert!(false, "reachability witness");
            }
            std::mem::forget(g);
            std::mem::forget(sr);
        }

    };
}
resolve_sr!(c03_resolve_sr, grm_u8, u8, false);
resolve_sr!(c03_resolve_sr_u16, grm_u16, u16, false);
resolve_sr!(c03_resolve_sr_u32, grm_u32, u32, false);
resolve_sr!(c03_witness, grm_w, u8, true);

macro_rules! encode_roundtrip {
    ($name:ident, $t:ty) => {
        #[kani::proof]
        pub fn $name() {
            let v: $t = kani::any();
            let w: $t = kani::any();
            let k: u8 = kani::any();
            kani::assume(k < 4);
            let mk = |k: u8, v: $t| match k {
                0 => Action::Shift(StIdx(v)),
                1 => Action::Reduce(PIdx(v)),
                2 => Action::Accept,
                _ => Action::Error,
            };
            let a = mk(k, v);
            let e = StateTable::<$t>::verif_encode(a);
            assert!(StateTable::<$t>::verif_decode(e) == a, "decode(encode(a)) == a");
            let k2: u8 = kani::any();
            kani::assume(k2 < 4);
            let b = mk(k2, w);
            if a != b {
                assert!(StateTable::<$t>::verif_encode(b) != e, "encode injective");
            }
            kani::cover!(k == 0 && v == <$t>::MAX, "max index shift");
        }
    };
}
encode_roundtrip!(c03_encode_u8, u8);
encode_roundtrip!(c03_encode_u16, u16);
encode_roundtrip!(c03_encode_u32, u32);

/// All three token precedences and all three production precedences symbolic, and the conflicting
/// token, production and table cell symbolic as well: the decision must use the precedence of
/// exactly that token and exactly that production and write exactly that cell.
#[kani::proof]
#[kani::unwind(5)]
pub fn c03_resolve_sr_any() {
    let tp = [any_prec(), any_prec(), any_prec()];
    let pp = [any_prec(), any_prec(), any_prec()];
    let prods = vec![
        vec![
            Symbol::Rule(RIdx(1u8)),
            Symbol::Token(TIdx(0)),
            Symbol::Rule(RIdx(1)),
        ],
        vec![Symbol::Token(TIdx(1))],
        vec![Symbol::Rule(RIdx(1))],
    ];
    let g = YaccGrammar::<u8>::verif_from_parts(
        2,
        3,
        prods,
        vec![RIdx(1u8), RIdx(1), RIdx(0)],
        vec![tp[0], tp[1], tp[2]],
        vec![pp[0], pp[1], pp[2]],
        PIdx(2),
    );
    let t: u8 = kani::any();
    let p: u8 = kani::any();
    let off: usize = kani::any();
    kani::assume(t < 3 && p < 3 && off < 4);
    if let (Some(a), Some(b)) = (tp[t as usize], pp[p as usize]) {
        kani::assume(a.level != b.level || a.kind == b.kind);
    }
    let target: u8 = kani::any();
    let cst: u8 = kani::any();
    let before = StateTable::<u8>::verif_encode(Action::Reduce(PIdx(p)));
    let mut actions = [before; 4];
    let mut sr = Vec::new();
    StateTable::<u8>::verif_resolve_shift_reduce(
        &g,
        &mut actions,
        off,
        TIdx(t),
        PIdx(p),
        StIdx(target),
        &mut sr,
        StIdx(cst),
    );
    let a = StateTable::<u8>::verif_decode(actions[off]);
    let shift = Action::Shift(StIdx(target));
    let reduce = Action::Reduce(PIdx(p));
    match (tp[t as usize], pp[p as usize]) {
        (None, _) | (_, None) => {
            assert!(a == shift, "default: shift");
            assert!(sr.len() == 1 && sr[0] == (TIdx(t), PIdx(p), StIdx(cst)), "default resolution recorded");
        }
        (Some(tk), Some(pr)) => {
            assert!(sr.len() == 0, "precedence-resolved conflicts are not recorded");
            if tk.level > pr.level {
                assert!(a == shift, "higher token level: shift");
            } else if tk.level < pr.level {
                assert!(a == reduce, "lower token level: reduce");
            } else {
                match tk.kind {
                    AssocKind::Left => assert!(a == reduce, "left: reduce"),
                    AssocKind::Right => assert!(a == shift, "right: shift"),
                    AssocKind::Nonassoc => assert!(a == Action::Error, "nonassoc: error"),
                }
            }
        }
    }
    let mut i = 0;
    while i < 4 {
        if i != off {
            assert!(actions[i] == before, "other cells untouched");
        }
        i += 1;
    }
    kani::cover!(t == 2 && p == 1 && a == Action::Error, "nonassoc on the last token and second production");
    std::mem::forget(g);
    std::mem::forget(sr);
}

/// The conflict list is an accumulator over all states: a call made when the list already holds
/// entries (free triples, possibly naming the same token and production in another state, or the very
/// same triple) must leave them in place and append exactly one triple iff the default rule decided.
#[kani::proof]
#[kani::unwind(5)]
pub fn c03_resolve_sr_history() {
    let tp = [any_prec(), any_prec(), any_prec()];
    let pp = [any_prec(), any_prec(), any_prec()];
    let prods = vec![
        vec![
            Symbol::Rule(RIdx(1u8)),
            Symbol::Token(TIdx(0)),
            Symbol::Rule(RIdx(1)),
        ],
        vec![Symbol::Token(TIdx(1))],
        vec![Symbol::Rule(RIdx(1))],
    ];
    let g = YaccGrammar::<u8>::verif_from_parts(
        2,
        3,
        prods,
        vec![RIdx(1u8), RIdx(1), RIdx(0)],
        vec![tp[0], tp[1], tp[2]],
        vec![pp[0], pp[1], pp[2]],
        PIdx(2),
    );
    let t: u8 = kani::any();
    let p: u8 = kani::any();
    kani::assume(t < 3 && p < 3);
    if let (Some(a), Some(b)) = (tp[t as usize], pp[p as usize]) {
        kani::assume(a.level != b.level || a.kind == b.kind);
    }
    let target: u8 = kani::any();
    let cst: u8 = kani::any();
    let h: [(u8, u8, u8); 2] = kani::any();
    kani::assume(h[0].0 < 3 && h[0].1 < 3 && h[1].0 < 3 && h[1].1 < 3);
    let mut sr = Vec::with_capacity(4);
    sr.push((TIdx(h[0].0), PIdx(h[0].1), StIdx(h[0].2)));
    sr.push((TIdx(h[1].0), PIdx(h[1].1), StIdx(h[1].2)));
    let mut actions = [StateTable::<u8>::verif_encode(Action::Reduce(PIdx(p))); 2];
    StateTable::<u8>::verif_resolve_shift_reduce(
        &g,
        &mut actions,
        1,
        TIdx(t),
        PIdx(p),
        StIdx(target),
        &mut sr,
        StIdx(cst),
    );
    assert!(sr.len() >= 2, "earlier reports are kept");
    assert!(sr[0] == (TIdx(h[0].0), PIdx(h[0].1), StIdx(h[0].2)), "earlier report 0 unchanged");
    assert!(sr[1] == (TIdx(h[1].0), PIdx(h[1].1), StIdx(h[1].2)), "earlier report 1 unchanged");
    match (tp[t as usize], pp[p as usize]) {
        (None, _) | (_, None) => {
            assert!(sr.len() == 3, "default resolution adds one report whatever was reported before");
            assert!(sr[2] == (TIdx(t), PIdx(p), StIdx(cst)), "the report names this token, production and state");
        }
        _ => assert!(sr.len() == 2, "precedence-resolved conflicts are not recorded"),
    }
    kani::cover!(sr.len() == 3 && h[0].0 == t && h[0].1 == p && h[0].2 != cst, "same token and production reported in another state before");
    kani::cover!(sr.len() == 3 && h[1] == (t, p, cst), "same triple reported before");
    std::mem::forget(g);
    std::mem::forget(sr);
}

/// Self-tests of the flag set (`--no-overflow-checks --no-memory-safety-checks` drop CBMC's own
/// instrumentation): Rust-level arithmetic-overflow and index panics must still be reported.  The
/// driver requires these two harnesses to FAIL with exactly that check.
#[kani::proof]
pub fn selftest_overflow() {
    let a: u8 = kani::any();
    let b = a + 1; // must be reported for a == 255
    assert!(b != 7 || a == 6);
}

#[kani::proof]
pub fn selftest_index() {
    let v = [1u8, 2, 3];
    let i: usize = kani::any();
    kani::assume(i <= 3);
    let x = v[i]; // must be reported for i == 3
    assert!(x > 0);
}
