//! C17 — grammar analyses: reachability, minimum / maximum sentence cost, termination.
//!
//! The grammar's *shape* (rule and length of each production) is concrete per harness instance;
//! its *content* -- every symbol slot, every token cost -- is symbolic.  Exactness of a least
//! fixed point is asserted as `closed(result) && forall X. closed(X) => result <= X` with X a free
//! vector (DESIGN 3.2): no reference iteration is run.
use cfgrammar::{PIdx, RIdx, Symbol, TIdx, yacc::YaccGrammar};

/// Max symbols per production over all shapes instantiated below.
pub const MAXL: usize = 3;

fn any_sym(r: usize, t: usize) -> Symbol<u8> {
    let is_tok: bool = kani::any();
    let v: u8 = kani::any();
    if is_tok {
        // user tokens only: the last token is the unnamed end-of-input token
        kani::assume((v as usize) < t - 1);
        Symbol::Token(TIdx(v))
    } else {
        // user rules only: rule 0 is the added start rule
        kani::assume(v >= 1 && (v as usize) < r);
        Symbol::Rule(RIdx(v))
    }
}

/// A grammar with `R` rules (rule 0 = added start rule `^: R1`), `T` tokens (last = EOF) and `UP`
/// user productions; production `i` belongs to rule `rule[i]` and has `len[i]` symbolic symbols.
fn any_grammar<const UP: usize>(rule: [u8; UP], len: [usize; UP], r: usize, t: usize) -> YaccGrammar<u8> {
    let mut prods = Vec::with_capacity(UP + 1);
    let mut prods_rules = Vec::with_capacity(UP + 1);
    let mut i = 0;
    while i < UP {
        let mut p = Vec::with_capacity(len[i]);
        let mut k = 0;
        while k < len[i] {
            p.push(any_sym(r, t));
            k += 1;
        }
        prods.push(p);
        prods_rules.push(RIdx(rule[i]));
        i += 1;
    }
    prods.push(vec![Symbol::Rule(RIdx(1))]);
    prods_rules.push(RIdx(0));
    YaccGrammar::verif_from_parts(
        r,
        t,
        prods,
        prods_rules,
        vec![None; t],
        vec![None; UP + 1],
        PIdx(UP as u8),
    )
}

/// As `any_grammar`, but whether a slot holds a token or a rule is concrete per instance
/// (`kinds[i][k]`: b'T' or b'R'); which token / which rule stays symbolic.
fn any_grammar_kinds<const UP: usize>(
    rule: [u8; UP],
    len: [usize; UP],
    kinds: [[u8; MAXL]; UP],
    r: usize,
    t: usize,
) -> YaccGrammar<u8> {
    let mut prods = Vec::with_capacity(UP + 1);
    let mut prods_rules = Vec::with_capacity(UP + 1);
    let mut i = 0;
    while i < UP {
        let mut p = Vec::with_capacity(len[i]);
        let mut k = 0;
        while k < len[i] {
            let v: u8 = kani::any();
            if kinds[i][k] == b'T' {
                kani::assume((v as usize) < t - 1);
                p.push(Symbol::Token(TIdx(v)));
            } else {
                kani::assume(v >= 1 && (v as usize) < r);
                p.push(Symbol::Rule(RIdx(v)));
            }
            k += 1;
        }
        prods.push(p);
        prods_rules.push(RIdx(rule[i]));
        i += 1;
    }
    prods.push(vec![Symbol::Rule(RIdx(1))]);
    prods_rules.push(RIdx(0));
    YaccGrammar::verif_from_parts(
        r,
        t,
        prods,
        prods_rules,
        vec![None; t],
        vec![None; UP + 1],
        PIdx(UP as u8),
    )
}

/// Copy the grammar's productions into plain arrays through concrete indices (so the oracles do not
/// re-read the heap through symbolic pointers): per production its rule, its length and its symbols
/// as (is_rule, index).
struct Flat<const P: usize> {
    rule: [usize; P],
    len: [usize; P],
    is_rule: [[bool; MAXL]; P],
    idx: [[usize; MAXL]; P],
}

fn flatten<const P: usize>(g: &YaccGrammar<u8>) -> Flat<P> {
    let mut f = Flat {
        rule: [0; P],
        len: [0; P],
        is_rule: [[false; MAXL]; P],
        idx: [[0; MAXL]; P],
    };
    let mut p = 0;
    while p < P {
        f.rule[p] = usize::from(g.prod_to_rule(PIdx(p as u8)));
        let prod = g.prod(PIdx(p as u8));
        f.len[p] = prod.len();
        let mut k = 0;
        while k < MAXL {
            if k < prod.len() {
                match prod[k] {
                    Symbol::Rule(b) => {
                        f.is_rule[p][k] = true;
                        f.idx[p][k] = usize::from(b);
                    }
                    Symbol::Token(t) => {
                        f.idx[p][k] = usize::from(t);
                    }
                }
            }
            k += 1;
        }
        p += 1;
    }
    f
}

/// reach[a][b]: rule b is mentioned in a production of a rule reachable from (or equal to) a, by
/// Warshall's algorithm on the "mentions" relation -- statically bounded, independent of has_path.
fn reach_matrix<const P: usize, const R: usize>(f: &Flat<P>) -> [[bool; R]; R] {
    let mut m = [[false; R]; R];
    let mut p = 0;
    while p < P {
        let mut k = 0;
        while k < MAXL {
            if k < f.len[p] && f.is_rule[p][k] {
                m[f.rule[p]][f.idx[p][k]] = true;
            }
            k += 1;
        }
        p += 1;
    }
    let mut k = 0;
    while k < R {
        let mut i = 0;
        while i < R {
            let mut j = 0;
            while j < R {
                if m[i][k] && m[k][j] {
                    m[i][j] = true;
                }
                j += 1;
            }
            i += 1;
        }
        k += 1;
    }
    m
}

macro_rules! c17_shape {
    ($path:ident, $min:ident, $max:ident, $term:ident, $r:expr, $t:expr, $up:expr, $rule:expr, $len:expr, $unwind:expr) => {
        /// has_path(from, to) == reachability through productions, for every pair of rules (the
        /// indices passed to the real function are concrete; the closed-set oracle is evaluated for a
        /// symbolic row).
        #[kani::proof]
        #[kani::unwind($unwind)]
        pub fn $path() {
            const R: usize = $r;
            const P: usize = $up + 1;
            let g = any_grammar::<{ $up }>($rule, $len, R, $t);
            let f = flatten::<P>(&g);
            let mut all = [[false; R]; R];
            let mut fr = 0;
            while fr < R {
                let mut to = 0;
                while to < R {
                    all[fr][to] = g.has_path(RIdx(fr as u8), RIdx(to as u8));
                    to += 1;
                }
                fr += 1;
            }
            // agreement with the independent transitive closure, every pair
            let m = reach_matrix::<P, R>(&f);
            let mut fr = 0;
            while fr < R {
                let mut to = 0;
                while to < R {
                    assert!(all[fr][to] == m[fr][to], "has_path == transitive closure of 'mentions'");
                    to += 1;
                }
                fr += 1;
            }
            // least-fixed-point characterisation for a symbolic row `from`:
            // (a) the row is closed under "mentioned in a production of `from` or of a member";
            // (b) it is contained in every closed set X (X a free vector).
            let from: usize = kani::any();
            kani::assume(from < R);
            let r = all[from];
            let x: [bool; R] = kani::any();
            let mut r_closed = true;
            let mut x_closed = true;
            let mut p = 0;
            while p < P {
                let a = f.rule[p];
                let mut k = 0;
                while k < MAXL {
                    if k < f.len[p] && f.is_rule[p][k] {
                        let b = f.idx[p][k];
                        if (a == from || r[a]) && !r[b] {
                            r_closed = false;
                        }
                        if (a == from || x[a]) && !x[b] {
                            x_closed = false;
                        }
                    }
                    k += 1;
                }
                p += 1;
            }
            assert!(r_closed, "has_path: every rule reachable through productions is reported");
            if x_closed {
                let mut to = 0;
                while to < R {
                    assert!(!r[to] || x[to], "has_path: only rules reachable through productions are reported");
                    to += 1;
                }
            }
            kani::cover!(from >= 1 && r[from], "opt: a recursive user rule");
            kani::cover!(from == 0 && !r[R - 1], "a rule unreachable from the start rule");
            kani::cover!(true, "end of harness reached");
            std::mem::forget(g);
        }

        /// min_sentence_cost == true minimum cost, for every productive grammar of the shape; the
        /// fixed point terminates (unwinding assertion at a bound above rules + 1 rounds).
        #[kani::proof]
        #[kani::unwind($unwind)]
        pub fn $min() {
            const R: usize = $r;
            const T: usize = $t;
            const P: usize = $up + 1;
            let g = any_grammar::<{ $up }>($rule, $len, R, T);
            let f = flatten::<P>(&g);
            let costs: [u8; T] = kani::any();
            let mut t = 0;
            while t < T {
                kani::assume(costs[t] >= 1);
                t += 1;
            }
            // productivity witness: a rank per rule such that every rule has a production whose
            // rule symbols all have smaller rank (exists-quantified through any + assume)
            let rank: [u8; R] = kani::any();
            let mut a = 0;
            while a < R {
                kani::assume((rank[a] as usize) <= R);
                let mut ok_rule = false;
                let mut p = 0;
                while p < P {
                    if f.rule[p] == a {
                        let mut ok = true;
                        let mut k = 0;
                        while k < MAXL {
                            if k < f.len[p] && f.is_rule[p][k] && rank[f.idx[p][k]] >= rank[a] {
                                ok = false;
                            }
                            k += 1;
                        }
                        if ok {
                            ok_rule = true;
                        }
                    }
                    p += 1;
                }
                kani::assume(ok_rule);
                a += 1;
            }
            let sg = g.sentence_generator(|t| costs[usize::from(t)]);
            let mut r = [0u32; R];
            let mut a = 0;
            while a < R {
                r[a] = sg.min_sentence_cost(RIdx(a as u8)) as u32;
                a += 1;
            }
            // (min,+): the true minimum is the greatest vector c with c[A] <= cost(p) for every
            // production p of A.  (a) the result is such a vector AND attained by some production;
            // (b) every such vector X is <= the result.
            let x: [u16; R] = kani::any();
            let mut r_sub = true;
            let mut x_sub = true;
            let mut attained = [false; R];
            let mut p = 0;
            while p < P {
                let a = f.rule[p];
                let mut sr = 0u32;
                let mut sx = 0u32;
                let mut k = 0;
                while k < MAXL {
                    if k < f.len[p] {
                        if f.is_rule[p][k] {
                            sr += r[f.idx[p][k]];
                            sx += x[f.idx[p][k]] as u32;
                        } else {
                            sr += costs[f.idx[p][k]] as u32;
                            sx += costs[f.idx[p][k]] as u32;
                        }
                    }
                    k += 1;
                }
                if r[a] > sr {
                    r_sub = false;
                }
                if r[a] == sr {
                    attained[a] = true;
                }
                if (x[a] as u32) > sx {
                    x_sub = false;
                }
                p += 1;
            }
            assert!(r_sub, "min cost: no production of a rule is cheaper than the rule's reported minimum");
            let mut a = 0;
            while a < R {
                assert!(attained[a], "min cost: the reported minimum is the cost of one of the rule's productions");
                a += 1;
            }
            if x_sub {
                let mut a = 0;
                while a < R {
                    assert!((x[a] as u32) <= r[a], "min cost: the reported minimum is not below the true minimum");
                    a += 1;
                }
            }
            kani::cover!(r[1] >= 2, "opt: start rule needs at least two token costs");
            kani::cover!(r[R - 1] == 0, "opt: a rule deriving the empty string");
            kani::cover!(true, "end of harness reached");
            std::mem::forget(sg);
            std::mem::forget(g);
        }

        /// Termination of both cost analyses for EVERY grammar of the shape, including unproductive
        /// rules (no productivity assumption): the queries return (unwinding assertions hold).
        #[kani::proof]
        #[kani::unwind($unwind)]
        pub fn $term() {
            const R: usize = $r;
            const T: usize = $t;
            let g = any_grammar::<{ $up }>($rule, $len, R, T);
            let costs: [u8; T] = kani::any();
            let mut t = 0;
            while t < T {
                kani::assume(costs[t] >= 1);
                t += 1;
            }
            let sg = g.sentence_generator(|t| costs[usize::from(t)]);
            let mut a = 0;
            while a < R {
                let mn = sg.min_sentence_cost(RIdx(a as u8));
                let mx = sg.max_sentence_cost(RIdx(a as u8));
                if let Some(mx) = mx {
                    assert!(mn <= mx, "minimum cost <= maximum cost");
                }
                a += 1;
            }
            kani::cover!(true, "end of harness reached");
            std::mem::forget(sg);
            std::mem::forget(g);
        }

        /// max_sentence_cost: None exactly for rules that reach a reference cycle; otherwise the
        /// solution of the (max,+) equations on the acyclic part; terminates.
        #[kani::proof]
        #[kani::unwind($unwind)]
        pub fn $max() {
            const R: usize = $r;
            const T: usize = $t;
            const P: usize = $up + 1;
            let g = any_grammar::<{ $up }>($rule, $len, R, T);
            let f = flatten::<P>(&g);
            let costs: [u8; T] = kani::any();
            let mut t = 0;
            while t < T {
                kani::assume(costs[t] >= 1);
                t += 1;
            }
            let sg = g.sentence_generator(|t| costs[usize::from(t)]);
            let mut r: [Option<u16>; R] = [None; R];
            let mut a = 0;
            while a < R {
                r[a] = sg.max_sentence_cost(RIdx(a as u8));
                a += 1;
            }
            let m = reach_matrix::<P, R>(&f);
            // inf[a]: a is on, or reaches, a reference cycle
            let mut inf = [false; R];
            let mut a = 0;
            while a < R {
                let mut c = 0;
                while c < R {
                    if (a == c || m[a][c]) && m[c][c] {
                        inf[a] = true;
                    }
                    c += 1;
                }
                a += 1;
            }
            let mut a = 0;
            while a < R {
                assert!(r[a].is_none() == inf[a], "max cost: unbounded reported exactly for rules reaching a cycle");
                a += 1;
            }
            // on the acyclic part the (max,+) equations have a unique solution: check them
            let mut best = [0u32; R];
            let mut p = 0;
            while p < P {
                let a = f.rule[p];
                if !inf[a] {
                    let mut s = 0u32;
                    let mut k = 0;
                    while k < MAXL {
                        if k < f.len[p] {
                            if f.is_rule[p][k] {
                                s += match r[f.idx[p][k]] {
                                    Some(v) => v as u32,
                                    None => 0,
                                };
                            } else {
                                s += costs[f.idx[p][k]] as u32;
                            }
                        }
                        k += 1;
                    }
                    if s > best[a] {
                        best[a] = s;
                    }
                }
                p += 1;
            }
            let mut a = 0;
            while a < R {
                if !inf[a] {
                    assert!(r[a] == Some(best[a] as u16), "max cost: maximum over the rule's productions");
                }
                a += 1;
            }
            kani::cover!(!inf[1] && best[1] >= 4, "opt: bounded start rule with a long maximal sentence");
            kani::cover!(inf[0] && !inf[R - 1], "opt: unbounded start rule, bounded last rule");
            kani::cover!(true, "end of harness reached");
            std::mem::forget(sg);
            std::mem::forget(g);
        }
    };
}


/// FIRST / nullable (and FOLLOW when `$follow`) are the least model of the textbook Horn system:
///   A -> alpha, alpha_1..alpha_{i-1} nullable, alpha_i = token t      =>  t in FIRST(A)
///   A -> alpha, alpha_1..alpha_{i-1} nullable, alpha_i = rule B       =>  FIRST(B) subseteq FIRST(A)
///   A -> alpha, all of alpha nullable rules (alpha may be empty)      =>  A nullable
///   EOF in FOLLOW(start rule)
///   A -> alpha B beta, beta_1..beta_{j-1} nullable, beta_j = token t  =>  t in FOLLOW(B)
///   A -> alpha B beta, beta_1..beta_{j-1} nullable, beta_j = rule C   =>  FIRST(C) subseteq FOLLOW(B)
///   A -> alpha B beta, all of beta nullable                           =>  FOLLOW(A) subseteq FOLLOW(B)
/// `model` evaluates "is (n, f, w) closed under these rules".
fn ff_model<const P: usize, const R: usize, const T: usize>(
    fl: &Flat<P>,
    n: &[bool; R],
    f: &[[bool; T]; R],
    w: &[[bool; T]; R],
    follow: bool,
) -> bool {
    let mut ok = true;
    if follow && !w[0][T - 1] {
        ok = false;
    }
    let mut p = 0;
    while p < P {
        let a = fl.rule[p];
        // FIRST / nullable
        let mut prefix_nullable = true;
        let mut k = 0;
        while k < MAXL {
            if k < fl.len[p] && prefix_nullable {
                if fl.is_rule[p][k] {
                    let b = fl.idx[p][k];
                    let mut t = 0;
                    while t < T {
                        if f[b][t] && !f[a][t] {
                            ok = false;
                        }
                        t += 1;
                    }
                    if !n[b] {
                        prefix_nullable = false;
                    }
                } else {
                    if !f[a][fl.idx[p][k]] {
                        ok = false;
                    }
                    prefix_nullable = false;
                }
            }
            k += 1;
        }
        if prefix_nullable && !n[a] {
            ok = false;
        }
        // FOLLOW
        if follow {
            let mut i = 0;
            while i < MAXL {
                if i < fl.len[p] && fl.is_rule[p][i] {
                    let b = fl.idx[p][i];
                    let mut rest_nullable = true;
                    let mut j = i + 1;
                    while j < MAXL {
                        if j < fl.len[p] && rest_nullable {
                            if fl.is_rule[p][j] {
                                let c = fl.idx[p][j];
                                let mut t = 0;
                                while t < T {
                                    if f[c][t] && !w[b][t] {
                                        ok = false;
                                    }
                                    t += 1;
                                }
                                if !n[c] {
                                    rest_nullable = false;
                                }
                            } else {
                                if !w[b][fl.idx[p][j]] {
                                    ok = false;
                                }
                                rest_nullable = false;
                            }
                        }
                        j += 1;
                    }
                    if rest_nullable {
                        let mut t = 0;
                        while t < T {
                            if w[a][t] && !w[b][t] {
                                ok = false;
                            }
                            t += 1;
                        }
                    }
                }
                i += 1;
            }
        }
        p += 1;
    }
    ok
}

macro_rules! c17_ff {
    ($first:ident, $follow:ident, $r:expr, $t:expr, $up:expr, $rule:expr, $len:expr, $unwind:expr) => {
        #[kani::proof]
        #[kani::unwind($unwind)]
        pub fn $first() {
            const R: usize = $r;
            const T: usize = $t;
            const P: usize = $up + 1;
            let g = any_grammar::<{ $up }>($rule, $len, R, T);
            let fl = flatten::<P>(&g);
            let fs = g.firsts();
            let mut n = [false; R];
            let mut f = [[false; T]; R];
            let mut a = 0;
            while a < R {
                n[a] = fs.is_epsilon_set(RIdx(a as u8));
                let mut t = 0;
                while t < T {
                    f[a][t] = fs.is_set(RIdx(a as u8), TIdx(t as u8));
                    t += 1;
                }
                a += 1;
            }
            let w = [[false; T]; R];
            assert!(ff_model::<P, R, T>(&fl, &n, &f, &w, false), "FIRST/nullable: closed under the derivation rules (nothing missing)");
            let xn: [bool; R] = kani::any();
            let xf: [[bool; T]; R] = kani::any();
            if ff_model::<P, R, T>(&fl, &xn, &xf, &w, false) {
                let mut a = 0;
                while a < R {
                    assert!(!n[a] || xn[a], "nullable: nothing extra");
                    let mut t = 0;
                    while t < T {
                        assert!(!f[a][t] || xf[a][t], "FIRST: nothing extra");
                        t += 1;
                    }
                    a += 1;
                }
            }
            kani::cover!(n[1] && f[1][0], "opt: nullable start rule with a token in FIRST");
            kani::cover!(true, "end of harness reached");
            std::mem::forget(fs);
            std::mem::forget(g);
        }

        #[kani::proof]
        #[kani::unwind($unwind)]
        pub fn $follow() {
            const R: usize = $r;
            const T: usize = $t;
            const P: usize = $up + 1;
            let g = any_grammar::<{ $up }>($rule, $len, R, T);
            let fl = flatten::<P>(&g);
            let fs = g.firsts();
            let fo = g.follows();
            let mut n = [false; R];
            let mut f = [[false; T]; R];
            let mut w = [[false; T]; R];
            let mut a = 0;
            while a < R {
                n[a] = fs.is_epsilon_set(RIdx(a as u8));
                let mut t = 0;
                while t < T {
                    f[a][t] = fs.is_set(RIdx(a as u8), TIdx(t as u8));
                    w[a][t] = fo.is_set(RIdx(a as u8), TIdx(t as u8));
                    t += 1;
                }
                a += 1;
            }
            assert!(ff_model::<P, R, T>(&fl, &n, &f, &w, true), "FOLLOW: closed under the derivation rules (nothing missing)");
            let xn: [bool; R] = kani::any();
            let xf: [[bool; T]; R] = kani::any();
            let xw: [[bool; T]; R] = kani::any();
            if ff_model::<P, R, T>(&fl, &xn, &xf, &xw, true) {
                let mut a = 0;
                while a < R {
                    let mut t = 0;
                    while t < T {
                        assert!(!w[a][t] || xw[a][t], "FOLLOW: nothing extra");
                        t += 1;
                    }
                    a += 1;
                }
            }
            kani::cover!(true, "end of harness reached");
            std::mem::forget(fo);
            std::mem::forget(fs);
            std::mem::forget(g);
        }
    };
}

/// Reference FIRST / nullable by plain in-place iteration of the textbook rules from the empty
/// assignment, `ROUNDS` rounds over fixed arrays.  Every fact it adds is a consequence of the rules, so
/// once the result is closed it is the least model; the caller checks closedness ("oracle:" check).
fn ref_round<const P: usize, const R: usize, const T: usize>(fl: &Flat<P>, n: &mut [bool; R], f: &mut [[bool; T]; R]) {
    let mut p = 0;
    while p < P {
        let a = fl.rule[p];
        let mut prefix_nullable = true;
        let mut k = 0;
        while k < MAXL {
            if k < fl.len[p] && prefix_nullable {
                if fl.is_rule[p][k] {
                    let b = fl.idx[p][k];
                    let mut t = 0;
                    while t < T {
                        if f[b][t] {
                            f[a][t] = true;
                        }
                        t += 1;
                    }
                    if !n[b] {
                        prefix_nullable = false;
                    }
                } else {
                    f[a][fl.idx[p][k]] = true;
                    prefix_nullable = false;
                }
            }
            k += 1;
        }
        if prefix_nullable {
            n[a] = true;
        }
        p += 1;
    }
}

/// Five rounds, written out (no loop: the harness-wide unwind bound stays at the minimum the real code needs).
fn ref_first<const P: usize, const R: usize, const T: usize, const ROUNDS: usize>(
    fl: &Flat<P>,
) -> ([bool; R], [[bool; T]; R]) {
    let mut n = [false; R];
    let mut f = [[false; T]; R];
    ref_round::<P, R, T>(fl, &mut n, &mut f);
    ref_round::<P, R, T>(fl, &mut n, &mut f);
    ref_round::<P, R, T>(fl, &mut n, &mut f);
    ref_round::<P, R, T>(fl, &mut n, &mut f);
    ref_round::<P, R, T>(fl, &mut n, &mut f);
    (n, f)
}

/// FOLLOW alone: the real `YaccFollows::new` (which computes FIRST itself) against the Horn system, with
/// FIRST / nullable taken from the in-harness reference iteration instead of a second symbolic run of
/// `YaccFirsts::new` -- only for three-rule shapes (2R-1 = 5 rounds reach the least model: two for
/// nullable, one for the direct tokens, two for chains through the other rules).
macro_rules! c17_fo {
    ($follow:ident, $r:expr, $t:expr, $up:expr, $rule:expr, $len:expr, $unwind:expr) => {
        c17_fo!(@body $follow, $r, $t, $up, $unwind, any_grammar::<{ $up }>($rule, $len, $r, $t));
    };
    ($follow:ident, $r:expr, $t:expr, $up:expr, $rule:expr, $len:expr, $kinds:expr, $unwind:expr) => {
        c17_fo!(@body $follow, $r, $t, $up, $unwind, any_grammar_kinds::<{ $up }>($rule, $len, $kinds, $r, $t));
    };
    (@body $follow:ident, $r:expr, $t:expr, $up:expr, $unwind:expr, $mk:expr) => {
        c17_fo!(@body $follow, $r, $t, $up, $unwind, $mk, 0);
    };
    ($follow:ident, $r:expr, $t:expr, $up:expr, $rule:expr, $len:expr, $kinds:expr, $unwind:expr, region = $region:expr) => {
        c17_fo!(@body $follow, $r, $t, $up, $unwind, any_grammar_kinds::<{ $up }>($rule, $len, $kinds, $r, $t), $region);
    };
    (@body $follow:ident, $r:expr, $t:expr, $up:expr, $unwind:expr, $mk:expr, $region:expr) => {
        #[kani::proof]
        #[kani::unwind($unwind)]
        pub fn $follow() {
            const R: usize = $r;
            const T: usize = $t;
            const P: usize = $up + 1;
            let g = $mk;
            let fl = flatten::<P>(&g);
            // known finding (known_findings.json): in `A: A B t` with B nullable, t is missing from FOLLOW(A).
            // region 1 = every grammar of the shape except that one, region 2 = that one alone.
            let in_region = fl.len[0] == 3 && fl.is_rule[0][0] && fl.idx[0][0] == 1 && fl.is_rule[0][1] && fl.idx[0][1] == 2;
            if $region == 1 {
                kani::assume(!in_region);
            } else if $region == 2 {
                kani::assume(in_region);
            }
            let (n, f) = ref_first::<P, R, T, { 2 * $r - 1 }>(&fl);
            let w0 = [[false; T]; R];
            assert!(ff_model::<P, R, T>(&fl, &n, &f, &w0, false), "oracle: reference FIRST / nullable is stable");
            let fo = g.follows();
            let mut w = [[false; T]; R];
            let mut a = 0;
            while a < R {
                let mut t = 0;
                while t < T {
                    w[a][t] = fo.is_set(RIdx(a as u8), TIdx(t as u8));
                    t += 1;
                }
                a += 1;
            }
            assert!(ff_model::<P, R, T>(&fl, &n, &f, &w, true), "FOLLOW: closed under the derivation rules (nothing missing)");
            let xn: [bool; R] = kani::any();
            let xf: [[bool; T]; R] = kani::any();
            let xw: [[bool; T]; R] = kani::any();
            if ff_model::<P, R, T>(&fl, &xn, &xf, &xw, true) {
                let mut a = 0;
                while a < R {
                    let mut t = 0;
                    while t < T {
                        assert!(!w[a][t] || xw[a][t], "FOLLOW: nothing extra");
                        t += 1;
                    }
                    a += 1;
                }
            }
            kani::cover!(w[1][0], "opt: a user token follows the first user rule");
            kani::cover!(true, "end of harness reached");
            std::mem::forget(fo);
            std::mem::forget(g);
        }
    };
}
c17_fo!(c17_fo_a3_b0, 3, 3, 2, [1, 2], [3, 0], 6);
c17_fo!(c17_fo_a21_b0, 3, 3, 3, [1, 1, 2], [2, 1, 0], 6);
c17_fo!(c17_fo_a2_b2, 3, 3, 2, [1, 2], [2, 2], 6);
c17_fo!(c17_fo_t2_a3_b0, 3, 2, 2, [1, 2], [3, 0], 6);
// slot kinds concrete (which rule / which token symbolic)
c17_fo!(c17_fok_a3_b0_rrt, 3, 3, 2, [1, 2], [3, 0], [*b"RRT", *b"---"], 5);
c17_fo!(c17_fok_t2_a3_b0_rrt, 3, 2, 2, [1, 2], [3, 0], [*b"RRT", *b"---"], 5);
c17_fo!(c17_fok_t2_a3_b0_rrt_rest, 3, 2, 2, [1, 2], [3, 0], [*b"RRT", *b"---"], 5, region = 1);
c17_fo!(c17_fok_t2_a3_b0_rrt_known, 3, 2, 2, [1, 2], [3, 0], [*b"RRT", *b"---"], 5, region = 2);
c17_fo!(c17_fok_a3_b0_rrr, 3, 3, 2, [1, 2], [3, 0], [*b"RRR", *b"---"], 6);
c17_fo!(c17_fok_a3_b0_rtr, 3, 3, 2, [1, 2], [3, 0], [*b"RTR", *b"---"], 6);
c17_fo!(c17_fok_a3_b0_trr, 3, 3, 2, [1, 2], [3, 0], [*b"TRR", *b"---"], 6);
c17_fo!(c17_fok_a21_b0_rr_t, 3, 3, 3, [1, 1, 2], [2, 1, 0], [*b"RR-", *b"T--", *b"---"], 6);
c17_fo!(c17_fok_a21_b0_rt_r, 3, 3, 3, [1, 1, 2], [2, 1, 0], [*b"RT-", *b"R--", *b"---"], 6);
c17_fo!(c17_fok_a2_b2_rr_rt, 3, 3, 2, [1, 2], [2, 2], [*b"RR-", *b"RT-"], 6);
c17_fo!(c17_fok_a2_b2_rt_tr, 3, 3, 2, [1, 2], [2, 2], [*b"RT-", *b"TR-"], 6);

c17_ff!(c17_first_a1_b1_c0, c17_follow_a1_b1_c0, 4, 3, 3, [1, 2, 3], [1, 1, 0], 6);
c17_ff!(c17_first_t2_a1_b1_c0, c17_follow_t2_a1_b1_c0, 4, 2, 3, [1, 2, 3], [1, 1, 0], 6);
c17_ff!(c17_first_a2_b2, c17_follow_a2_b2, 3, 3, 2, [1, 2], [2, 2], 6);
c17_ff!(c17_first_a3_b0, c17_follow_a3_b0, 3, 3, 2, [1, 2], [3, 0], 6);
c17_ff!(c17_first_a2_b1_c0, c17_follow_a2_b1_c0, 4, 3, 3, [1, 2, 3], [2, 1, 0], 6);
c17_ff!(c17_first_a21_b0, c17_follow_a21_b0, 3, 3, 3, [1, 1, 2], [2, 1, 0], 6);

include!("c17_shapes.rs");
