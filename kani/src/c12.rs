//! C12 — totality of the regex-free byte-offset scanners of the Yacc parser, and
//! C10 — the whitespace/comment skipper agrees with a reference skipper (layout clause).
//!
//! Texts: the number of characters and their byte widths are concrete per instance; a width-1
//! position is a symbolic character from the scanner's alphabet (every character its branches test,
//! plus a neutral one); a wider position is a fixed multi-byte character.  The start offset is a
//! symbolic character boundary.
use cfgrammar::yacc::parser::verif as yp;

pub fn fixed_rs() -> std::hash::RandomState {
    unsafe { std::mem::transmute::<[u64; 2], std::hash::RandomState>([1, 2]) }
}

/// `pre` concrete leading bytes, then `N` characters with byte widths `w` (width 1 = symbolic from
/// `alpha`).  Returns the bytes and every character boundary (indices 0..=PRE+N).
pub fn any_text<const PRE: usize, const N: usize, const B: usize, const A: usize>(
    pre: [u8; PRE],
    w: [u8; N],
    alpha: [u8; A],
) -> ([u8; B], [usize; 24]) {
    any_text_mb::<PRE, N, B, A>(pre, w, alpha, MB_PLAIN)
}

/// The fixed multi-byte characters of an instance family: (a 2-byte, a 3-byte character).  Chosen per
/// scanner as the non-ASCII *class-mates* of what the scanner tests for -- a Unicode digit for
/// parse_int, non-ASCII white space / line separators for the layout and line scanners, a
/// fullwidth colon for the colon scanner -- so that "is it a digit / blank / line end" shortcuts
/// that are right for ASCII and wrong for Unicode are within the instance space.
pub type Mb = ([u8; 2], [u8; 3]);
pub const MB_PLAIN: Mb = ([0xC3, 0xA9], [0xE2, 0x82, 0xAC]); // e-acute, euro sign
pub const MB_DIGIT: Mb = ([0xD9, 0xA3], [0xEF, 0xBC, 0x91]); // ARABIC-INDIC DIGIT THREE, FULLWIDTH DIGIT ONE
pub const MB_SPACE: Mb = ([0xC2, 0xA0], [0xE2, 0x80, 0xA8]); // NO-BREAK SPACE, LINE SEPARATOR
pub const MB_LINE: Mb = ([0xC2, 0x85], [0xE2, 0x80, 0xA9]); // NEXT LINE, PARAGRAPH SEPARATOR
pub const MB_COLON: Mb = ([0xC3, 0xA9], [0xEF, 0xBC, 0x9A]); // e-acute, FULLWIDTH COLON

pub fn any_text_mb<const PRE: usize, const N: usize, const B: usize, const A: usize>(
    pre: [u8; PRE],
    w: [u8; N],
    alpha: [u8; A],
    mb: Mb,
) -> ([u8; B], [usize; 24]) {
    let mut buf = [0u8; B];
    let mut bounds = [0usize; 24];
    let mut len = 0usize;
    let mut i = 0;
    while i < PRE {
        bounds[i] = len;
        buf[len] = pre[i];
        len += 1;
        i += 1;
    }
    let mut i = 0;
    while i < N {
        bounds[PRE + i] = len;
        match w[i] {
            1 => {
                let c: u8 = kani::any();
                kani::assume((c as usize) < A);
                buf[len] = alpha[c as usize];
                len += 1;
            }
            2 => {
                buf[len] = mb.0[0];
                buf[len + 1] = mb.0[1];
                len += 2;
            }
            _ => {
                buf[len] = mb.1[0];
                buf[len + 1] = mb.1[1];
                buf[len + 2] = mb.1[2];
                len += 3;
            }
        }
        i += 1;
    }
    bounds[PRE + N] = len;
    (buf, bounds)
}

fn is_boundary<const B: usize>(buf: &[u8; B], p: usize) -> bool {
    p == B || (p < B && (buf[p] & 0xC0) != 0x80)
}

/// The totality contract of C12 for one scanner result.
fn check_total<const B: usize>(buf: &[u8; B], i: usize, r: &Result<usize, (u8, usize, usize)>) {
    match *r {
        Ok(j) => {
            assert!(i <= j && j <= B, "Ok offset within the text and not before the start");
            assert!(is_boundary(buf, j), "Ok offset on a character boundary");
        }
        Err((_, a, b)) => {
            assert!(a <= b && b <= B, "error span within the text");
            assert!(is_boundary(buf, a) && is_boundary(buf, b), "error span on character boundaries");
        }
    }
}

// ---- reference skipper (C10) ---------------------------------------------------------------------

/// Yacc layout, written from the lexical conventions: blanks; newlines iff allowed; `//` to end of
/// line; `/*` to the NEXT `*/` and nothing else; a lone `/` ends the skip.
/// Ok(offset) or Err((kind, position)).
fn ref_ws<const B: usize>(b: &[u8; B], i: usize, inc: bool) -> Result<usize, (u8, usize)> {
    ref_ws_nl(b, i, inc).map(|(j, _)| j)
}

/// As `ref_ws`, also telling whether a line end was crossed (a newline skipped as layout, the
/// newline ending a `//` comment, or a newline inside a block comment).
fn ref_ws_nl<const B: usize>(b: &[u8; B], mut i: usize, inc: bool) -> Result<(usize, bool), (u8, usize)> {
    let n = B;
    let mut crossed = false;
    let mut guard = 0;
    while i < n && guard <= B {
        guard += 1;
        let c = b[i];
        if c == b' ' || c == b'\t' {
            i += 1;
        } else if c == b'\n' || c == b'\r' {
            if !inc {
                return Err((yp::REACHED_EOL, i));
            }
            crossed = true;
            i += 1;
        } else if c == b'/' {
            if i + 1 == n {
                break;
            }
            if b[i + 1] == b'/' {
                i += 2;
                while i < n {
                    let d = b[i];
                    i += 1;
                    if d == b'\n' || d == b'\r' {
                        crossed = true;
                        break;
                    }
                }
            } else if b[i + 1] == b'*' {
                let st = i;
                let mut k = i + 2;
                let mut found = false;
                while k < n {
                    if b[k] == b'\n' || b[k] == b'\r' {
                        if !inc {
                            return Err((yp::REACHED_EOL, st));
                        }
                        crossed = true;
                    }
                    if b[k] == b'*' && k + 1 < n && b[k + 1] == b'/' {
                        i = k + 2;
                        found = true;
                        break;
                    }
                    k += 1;
                }
                if !found {
                    return Err((yp::INCOMPLETE_COMMENT, st));
                }
            } else {
                break;
            }
        } else {
            break;
        }
    }
    Ok((i, crossed))
}

// ---- harness families ------------------------------------------------------------------------------

/// parse_ws: totality (C12) on PRE concrete + N symbolic characters.
macro_rules! c12_ws {
    ($name:ident, $pre:expr, $npre:expr, $w:expr, $n:expr, $b:expr, $alpha:expr, $na:expr, $fixed_start:expr, $unwind:expr) => {
        #[kani::proof]
        #[kani::unwind($unwind)]
        #[kani::stub(std::hash::RandomState::new, fixed_rs)]
        pub fn $name() {
            let (buf, bounds) = any_text_mb::<{ $npre }, { $n }, { $b }, { $na }>($pre, $w, $alpha, MB_SPACE);
            let s = unsafe { std::str::from_utf8_unchecked(&buf[..]) };
            let i = if $fixed_start {
                0
            } else {
                let oi: usize = kani::any();
                kani::assume(oi <= $npre + $n);
                bounds[oi]
            };
            let inc: bool = kani::any();
            let r = yp::parse_ws(s, i, inc);
            check_total(&buf, i, &r);
            kani::cover!(matches!(r, Err((k, _, _)) if k == yp::INCOMPLETE_COMMENT), "opt: unterminated comment");
            kani::cover!(matches!(r, Ok(j) if j > i), "something skipped");
        }
    };
}

/// parse_ws == reference skipper (C10).
macro_rules! c10_ws {
    ($name:ident, $pre:expr, $npre:expr, $w:expr, $n:expr, $b:expr, $alpha:expr, $na:expr, $fixed_start:expr, $unwind:expr, $witness:expr) => {
        #[kani::proof]
        #[kani::unwind($unwind)]
        #[kani::stub(std::hash::RandomState::new, fixed_rs)]
        pub fn $name() {
            let (buf, bounds) = any_text_mb::<{ $npre }, { $n }, { $b }, { $na }>($pre, $w, $alpha, MB_SPACE);
            let s = unsafe { std::str::from_utf8_unchecked(&buf[..]) };
            let i = if $fixed_start {
                0
            } else {
                let oi: usize = kani::any();
                kani::assume(oi <= $npre + $n);
                bounds[oi]
            };
            let inc: bool = kani::any();
            let (got, newlines) = yp::parse_ws_newlines(s, i, inc);
            let exp = ref_ws_nl(&buf, i, inc);
            match (got, exp) {
                (Ok(a), Ok((b, crossed))) => {
                    assert!(a == b, "layout skipped up to the same offset as the reference");
                    // callers learn "a line end was crossed" by comparing the newline counter
                    assert!((newlines > 0) == crossed, "line end crossed iff the newline counter grew");
                }
                (Err((k, a, _)), Err((rk, ra))) => {
                    assert!(k == rk, "same error kind as the reference");
                    assert!(a == ra, "same error position as the reference");
                }
                (Ok(_), Err(_)) => assert!(false, "accepted layout the reference rejects"),
                (Err(_), Ok(_)) => assert!(false, "rejected layout the reference accepts"),
            }
            kani::cover!(matches!(exp, Ok((j, _)) if j == $b && i == 0), "whole text is layout");
            kani::cover!(matches!(exp, Err((k, _)) if k == yp::REACHED_EOL), "newline where none is allowed");
            if $witness {
                assert!(false, "reachability witness");
            }
        }
    };
}

/// A scanner taking (src, i) with a precondition on the character at i given by `$first`
/// (0 = none): totality (C12).
macro_rules! c12_scan {
    ($name:ident, $f:path, $pre:expr, $npre:expr, $w:expr, $n:expr, $b:expr, $alpha:expr, $na:expr, $mb:expr, $fixed_start:expr, $unwind:expr) => {
        #[kani::proof]
        #[kani::unwind($unwind)]
        #[kani::stub(std::hash::RandomState::new, fixed_rs)]
        pub fn $name() {
            let (buf, bounds) = any_text_mb::<{ $npre }, { $n }, { $b }, { $na }>($pre, $w, $alpha, $mb);
            let s = unsafe { std::str::from_utf8_unchecked(&buf[..]) };
            let i = if $fixed_start {
                0
            } else {
                let oi: usize = kani::any();
                kani::assume(oi <= $npre + $n);
                bounds[oi]
            };
            let r = $f(s, i);
            check_total(&buf, i, &r);
            kani::cover!(r.is_ok(), "scanner accepts");
            kani::cover!(r.is_err(), "opt: scanner rejects");
        }
    };
}

fn parse_string_off(s: &str, i: usize) -> yp::R<usize> {
    yp::parse_string(s, i).map(|(j, _)| j)
}
fn parse_int_off(s: &str, i: usize) -> yp::R<usize> {
    yp::parse_int_usize(s, i).map(|(j, _)| j)
}

const WS_A: [u8; 5] = [b' ', b'\n', b'/', b'*', b'a'];
const WS_A2: [u8; 7] = [b' ', b'\n', b'/', b'*', b'a', b'\t', b'\r'];
const STR_A: [u8; 6] = [b'\'', b'"', b'\\', b'\n', b'a', b'\r'];
const ACT_A: [u8; 5] = [b'{', b'}', b'\n', b'a', b'\r'];
const EOL_A: [u8; 3] = [b'a', b'\n', b'\r'];
const COL_A: [u8; 5] = [b':', b'a', b'\n', b' ', b'\r'];
const INT_A: [u8; 4] = [b'0', b'9', b'5', b'a'];
const DIG_A: [u8; 10] = [b'0', b'1', b'2', b'3', b'4', b'5', b'6', b'7', b'8', b'9'];

// name, concrete prefix, its length, widths, chars, total bytes, alphabet, its size, unwind (= bytes + 2)
c12_ws!(c12_ws_f3, [], 0, [1, 1, 1], 3, 3, WS_A, 5, false, 5);
c12_ws!(c12_ws_f4, [], 0, [1, 1, 1, 1], 4, 4, WS_A, 5, false, 6);
c12_ws!(c12_ws_block2, [b'/', b'*'], 2, [1, 1], 2, 4, WS_A, 5, true, 6);
c12_ws!(c12_ws_line2, [b'/', b'/'], 2, [1, 1], 2, 4, WS_A, 5, true, 6);
c12_ws!(c12_ws_mb3, [], 0, [1, 2, 1], 3, 4, WS_A, 5, false, 6);
c12_ws!(c12_ws_block3, [b'/', b'*'], 2, [1, 1, 1], 3, 5, WS_A, 5, true, 7);
c12_ws!(c12_ws_line3, [b'/', b'/'], 2, [1, 1, 1], 3, 5, WS_A, 5, true, 7);
c12_ws!(c12_ws_mb, [], 0, [1, 2, 1, 1], 4, 5, WS_A, 5, false, 7);
c12_ws!(c12_ws_block4, [b'/', b'*'], 2, [1, 1, 1, 1], 4, 6, WS_A, 5, true, 8);
c12_ws!(c12_ws_f5, [], 0, [1, 1, 1, 1, 1], 5, 5, WS_A, 5, false, 7);

c10_ws!(c10_ws_f3, [], 0, [1, 1, 1], 3, 3, WS_A2, 7, false, 5, false);
c10_ws!(c10_ws_f4, [], 0, [1, 1, 1, 1], 4, 4, WS_A, 5, false, 6, false);
c10_ws!(c10_ws_block2, [b'/', b'*'], 2, [1, 1], 2, 4, WS_A, 5, true, 6, false);
c10_ws!(c10_ws_star2, [b'/', b'*', b'*'], 3, [1, 1], 2, 5, WS_A, 5, true, 7, false);
c10_ws!(c10_ws_line2, [b'/', b'/'], 2, [1, 1], 2, 4, WS_A, 5, true, 6, false);
c10_ws!(c10_ws_linemb, [b'/', b'/'], 2, [3, 1], 2, 6, WS_A, 5, true, 8, false);
c10_ws!(c10_ws_linemb3, [b'/', b'/'], 2, [3, 1, 1], 3, 7, WS_A, 5, true, 9, false);
c10_ws!(c10_ws_star3, [b'/', b'*', b'*'], 3, [1, 1, 1], 3, 6, WS_A, 5, true, 8, false);
c10_ws!(c10_ws_block3, [b'/', b'*'], 2, [1, 1, 1], 3, 5, WS_A, 5, true, 7, false);
c10_ws!(c10_ws_line3, [b'/', b'/'], 2, [1, 1, 1], 3, 5, WS_A, 5, true, 7, false);
c10_ws!(c10_ws_mb, [], 0, [1, 1, 3, 1], 4, 6, WS_A, 5, false, 8, false);
c10_ws!(c10_ws_block4, [b'/', b'*'], 2, [1, 1, 1, 1], 4, 6, WS_A, 5, true, 8, false);
c10_ws!(c10_ws_f5, [], 0, [1, 1, 1, 1, 1], 5, 5, WS_A, 5, false, 7, false);
c10_ws!(c10_ws_witness, [], 0, [1, 1], 2, 2, WS_A2, 7, false, 4, true);

c12_scan!(c12_string_q3, parse_string_off, [b'\''], 1, [1, 1, 1], 3, 4, STR_A, 6, MB_PLAIN, true, 6);
c12_scan!(c12_string_f3, parse_string_off, [], 0, [1, 1, 1], 3, 3, STR_A, 6, MB_PLAIN, false, 5);
c12_scan!(c12_string_mb, parse_string_off, [b'"'], 1, [1, 2, 1], 3, 5, STR_A, 6, MB_PLAIN, true, 7);
c12_scan!(c12_string_q4, parse_string_off, [b'\''], 1, [1, 1, 1, 1], 4, 5, STR_A, 6, MB_PLAIN, true, 7);
c12_scan!(c12_action_b3, yp::parse_action, [b'{'], 1, [1, 1, 1], 3, 4, ACT_A, 5, MB_PLAIN, true, 6);
c12_scan!(c12_action_mb, yp::parse_action, [b'{'], 1, [1, 3, 1], 3, 6, ACT_A, 5, MB_PLAIN, true, 8);
c12_scan!(c12_action_b4, yp::parse_action, [b'{'], 1, [1, 1, 1, 1], 4, 5, ACT_A, 5, MB_PLAIN, true, 7);
c12_scan!(c12_eol_f3, yp::parse_to_eol, [], 0, [1, 2, 1], 3, 4, EOL_A, 3, MB_LINE, false, 6);
c12_scan!(c12_eol_mb3, yp::parse_to_eol, [], 0, [1, 3, 1], 3, 5, EOL_A, 3, MB_LINE, false, 7);
c12_scan!(c12_eol_f4, yp::parse_to_eol, [], 0, [1, 1, 1, 1], 4, 4, EOL_A, 3, MB_LINE, false, 6);
c12_scan!(c12_colon_f3, yp::parse_to_single_colon, [], 0, [1, 1, 1], 3, 3, COL_A, 5, MB_COLON, false, 5);
c12_scan!(c12_colon_mb, yp::parse_to_single_colon, [], 0, [1, 3, 1], 3, 5, COL_A, 5, MB_COLON, false, 7);
c12_scan!(c12_colon_f4, yp::parse_to_single_colon, [], 0, [1, 1, 1, 1], 4, 4, COL_A, 5, MB_COLON, false, 6);
c12_scan!(c12_int_f3, parse_int_off, [], 0, [1, 1, 1], 3, 3, INT_A, 4, MB_DIGIT, false, 5);
c12_scan!(c12_int_mb, parse_int_off, [], 0, [1, 1, 2], 3, 4, INT_A, 4, MB_DIGIT, false, 6);
c12_scan!(c12_int_mb3, parse_int_off, [], 0, [1, 3, 1], 3, 5, INT_A, 4, MB_DIGIT, false, 7);


// ---- small instances: a robustness layer.  When a change to the code under test makes the larger
// instances too expensive to decide (time / memory caps -> inconclusive), these still finish.
c12_ws!(c12_ws_f2, [], 0, [1, 1], 2, 2, WS_A2, 7, false, 4);
c10_ws!(c10_ws_f1, [], 0, [1], 1, 1, WS_A2, 7, false, 3, false);
c10_ws!(c10_ws_f2, [], 0, [1, 1], 2, 2, WS_A2, 7, false, 4, false);
c12_scan!(c12_string_f2, parse_string_off, [], 0, [1, 1], 2, 2, STR_A, 6, MB_PLAIN, false, 4);
c12_scan!(c12_action_b2, yp::parse_action, [b'{'], 1, [1, 1], 2, 3, ACT_A, 5, MB_PLAIN, true, 5);
c12_scan!(c12_eol_f2, yp::parse_to_eol, [], 0, [1, 1], 2, 2, EOL_A, 3, MB_LINE, false, 4);
c12_scan!(c12_colon_f2, yp::parse_to_single_colon, [], 0, [1, 1], 2, 2, COL_A, 5, MB_COLON, false, 4);
c12_scan!(c12_int_f2, parse_int_off, [], 0, [1, 1], 2, 2, INT_A, 4, MB_DIGIT, false, 4);

/// parse_int::<usize> on 20 / 21 symbolic digits: a value past usize::MAX is an error, never a
/// panic or a wrapped number.
macro_rules! c12_int_big {
    ($name:ident, $n:expr, $unwind:expr) => {
        #[kani::proof]
        #[kani::unwind($unwind)]
        #[kani::stub(std::hash::RandomState::new, fixed_rs)]
        pub fn $name() {
            let (buf, _) = any_text::<0, { $n }, { $n }, 10>([], [1; $n], DIG_A);
            let s = unsafe { std::str::from_utf8_unchecked(&buf[..]) };
            let r = yp::parse_int_usize(s, 0);
            // reference value in u128
            let mut v: u128 = 0;
            let mut i = 0;
            while i < $n {
                v = v * 10 + (buf[i] - b'0') as u128;
                i += 1;
            }
            match r {
                Ok((j, x)) => {
                    assert!(j == $n, "all digits consumed");
                    assert!(v <= usize::MAX as u128 && x as u128 == v, "value read exactly");
                }
                Err((k, a, b)) => {
                    assert!(k == yp::ILLEGAL_INTEGER && a == 0 && b == 0, "located integer error");
                    assert!(v > usize::MAX as u128, "only numbers past usize::MAX are rejected");
                }
            }
            kani::cover!(r.is_err(), "number past usize::MAX");
            kani::cover!(matches!(r, Ok((_, x)) if x == usize::MAX), "usize::MAX itself");
        }
    };
}
c12_int_big!(c12_int_d20, 20, 22);
c12_int_big!(c12_int_d21, 21, 23);
