#!/usr/bin/env python3
"""Import a confirmed seeded change from a sub-agent's output directory into /verif/seeded/<id>/.
usage: import_seed.py <PID> <round> <i> <outdir>   (needs <outdir>/m<i>.{patch.diff,demo.rs,desc.txt,confirm.json})"""
import json, os, shutil, subprocess, sys
pid, rnd, i, out = sys.argv[1:5]
sid = f"{pid}-r{rnd}m{i}"
dst = os.path.join(os.path.dirname(os.path.dirname(os.path.abspath(__file__))), "seeded", sid)
conf = json.load(open(f"{out}/m{i}.confirm.json"))
ok = conf["patch_applies"] and conf["suite_with_patch"]["failed"] == 0 and conf["suite_with_patch"]["passed"] >= 293 \
    and conf["demo_with_patch"] == "fails" and conf["demo_without_patch"] == "passes"
if not ok:
    print(sid, "NOT CONFIRMED", json.dumps({k: v for k, v in conf.items() if k != "demo_with_patch_tail"}))
    sys.exit(1)
os.makedirs(dst, exist_ok=True)
shutil.copy(f"{out}/m{i}.patch.diff", f"{dst}/patch.diff")
shutil.copy(f"{out}/m{i}.demo.rs", f"{dst}/demo.rs")
base = subprocess.run(["git", "-C", "/repo", "rev-parse", "--short", "HEAD"], capture_output=True, text=True).stdout.strip()
meta = {
    "property": pid, "id": sid, "base_commit": base, "round": int(rnd),
    "author": "independent sub-agent given only the property text and a scratch worktree (no hints about locations or about /verif); asked for changes that need something specific to manifest",
    "description_by_author": open(f"{out}/m{i}.desc.txt").read(),
    "confirmed_by_me": {
        "how": "bin/confirm_seed.py in the scratch worktree: git apply; cargo test --workspace --no-fail-fast --offline; demo copied to its destination and run with and without the patch",
        "patch_applies": conf["patch_applies"], "suite_with_patch": conf["suite_with_patch"],
        "demo_with_patch": conf["demo_with_patch"], "demo_without_patch": conf["demo_without_patch"],
    },
    "demo_dest": conf["demo_dest"],
}
json.dump(meta, open(f"{dst}/meta.json", "w"), indent=1)
print(sid, "imported")
