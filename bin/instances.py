"""Harness instances per property: which Kani harness, in which tier, under which caps.

An *instance* is one harness of /verif/kani with its concrete size parameters compiled in (lengths
and counts are concrete per instance, contents symbolic: DESIGN.md 2.2).  `tier`:
  "quick"    runs in both tiers;
  "thorough" runs only in the thorough tier;
  "rotate"   runs in the thorough tier, and in the quick tier only when selected by VERIF_SEED
             (ROTATE_PER_RUN of them per quick run).
"""
import subprocess

ROTATE_PER_RUN = 2


REPO = "/repo"


def repo_rev():
    try:
        r = subprocess.run(["git", "-C", REPO, "rev-parse", "--short", "HEAD"], capture_output=True, text=True)
        d = subprocess.run(["git", "-C", REPO, "status", "--porcelain", "--untracked-files=no"],
                           capture_output=True, text=True)
        return r.stdout.strip() + ("+dirty" if d.stdout.strip() else "")
    except Exception:
        return "unknown"


def I(harness, tier="quick", **kw):
    d = {"harness": harness, "tier": tier}
    d.update(kw)
    return d


PROPS = {}

# ------------------------------------------------------------------------------------------------
PROPS["C03"] = {
    "functions_encoded": [
        "lrtable::statetable::resolve_shift_reduce", "lrtable::StateTable::encode", "lrtable::StateTable::decode",
        "cfgrammar::yacc::YaccGrammar::token_precedence", "cfgrammar::yacc::YaccGrammar::prod_precedence",
    ],
    "bounds": "token and production Option<Precedence> fully symbolic (64-bit level, kind, presence); shift "
              "target and conflict state symbolic (u8); Action index symbolic over the whole u8/u16/u32 range; "
              "grammar E: E '+' E | 'n' concrete; unwind 5 (no data-dependent loop)",
    "outside_claim": [
        "reduce/reduce rule, exactness of the conflict lists, every-cell-of-every-state clause: live in "
        "StateTable::new over Itemset hash maps (DESIGN 5, probe 16)",
        "%expect comparison in CTParserBuilder::build (between file-system calls)",
        "mixed associativity kinds at one level (cannot come from a .y file; explicit panic) assumed away",
    ],
    "assumptions": [
        "kani::assume(level differs or kind equal) -- one %left/%right/%nonassoc line has one kind",
        "trusted: Kani MIR->goto translation, CBMC, CaDiCaL, hooks verif_resolve_shift_reduce/verif_encode/verif_decode",
    ],
    "instances": [
        I("c03::c03_resolve_sr", bounds="precedences symbolic; u8 storage"),
        I("c03::c03_resolve_sr_u16", bounds="precedences symbolic; u16 storage"),
        I("c03::c03_resolve_sr_u32", bounds="precedences symbolic; u32 storage"),
        I("c03::c03_resolve_sr_any", bounds="all 3 token and 3 production precedences, the conflicting token, "
          "production and table cell symbolic"),
        I("c03::c03_resolve_sr_history", bounds="as _any, with two free triples already in the conflict list"),
        I("c03::c03_encode_u8", bounds="all u8 indices"),
        I("c03::c03_encode_u16", bounds="all u16 indices"),
        I("c03::c03_encode_u32", bounds="all u32 indices"),
        I("c03::c03_witness", bounds="reachability twin", expect_fail=True),
        I("c03::selftest_overflow", bounds="self-test of the flag set: a u8 overflow must be reported",
          expect_fail="attempt to add with overflow"),
        I("c03::selftest_index", bounds="self-test of the flag set: an out-of-range index must be reported",
          expect_fail="index out of bounds"),
    ],
    "jobs": {"quick": 6, "thorough": 6},
}


# ------------------------------------------------------------------------------------------------
PROPS["C19"] = {
    "functions_encoded": [
        "cfgrammar::NewlineCache::new", "NewlineCache::feed", "NewlineCache::feed_len",
        "NewlineCache::byte_to_line_num", "NewlineCache::line_num_to_byte", "NewlineCache::byte_to_line_byte",
        "NewlineCache::byte_to_line_num_and_col_num", "NewlineCache::span_line_bytes", "NewlineCache::from_str",
        "lrlex::LRNonStreamingLexer::{new, span_lines_str, line_col}",
    ],
    "bounds": {
        "quick": "query harnesses: ANY cache state satisfying the representation invariant with exactly k lines, "
                 "k = 1..4 and 12 (one instance each), every line start and the trailing length a free 40-bit value, "
                 "offset / span free 64-bit values; feed: pre-state of k = 1..2 lines (free offsets) + chunk of "
                 "n = 1..2 free characters from {a, LF, CR, e-acute (2 bytes), euro (3 bytes)}; columns: texts of "
                 "2..3 free characters from {a, LF, CR, e-acute}, fed in two pieces at a free split, free "
                 "character-boundary offset; unwind = loop bound derived per instance",
        "thorough": "as quick plus k = 5..8 and 10 query states, feed with k = 3 and n = 3, column texts of 4 characters "
                    "and of 3 characters including a 3-byte character",
    },
    "outside_claim": [
        "query states with more than 12 lines (feed itself is covered inductively for any number of lines)",
        "texts longer than 4 characters for columns",
        "how lrlex's lexer fills the cache while lexing (LRNonStreamingLexerDef::lexer: regex); the lexer-level "
        "queries span_lines_str / line_col themselves are covered through LRNonStreamingLexer::new",
        "LexParseError::pp padding (float log10, format!)",
        "offsets >= 2^40",
    ],
    "assumptions": [
        "representation invariant of NewlineCache: newlines[0] == 0, strictly increasing, values < 2^40",
        "span start <= end <= length of the text fed",
        "span end: end of the line containing position `end`, or of the line containing byte `end-1` -- either accepted",
        "column at the LF of a CR LF pair: the CR's column or one more -- either accepted",
        "Vec capacity pre-sized in the harness (no reallocation inside feed)",
        "trusted: Kani MIR->goto translation, CBMC, CaDiCaL, hooks verif_from_raw / verif_raw",
    ],
    "instances": [
        I("c19::c19_line_k1", bounds="1 line", no_cover=["last line start"]),
        I("c19::c19_line_k2", bounds="2 lines"),
        I("c19::c19_line_k3", bounds="3 lines"),
        I("c19::c19_line_k4", bounds="4 lines"),
        I("c19::c19_line_k5", "thorough", bounds="5 lines"),
        I("c19::c19_line_k6", "thorough", bounds="6 lines"),
        I("c19::c19_line_k7", "thorough", bounds="7 lines"),
        I("c19::c19_line_k8", "thorough", bounds="8 lines"),
        I("c19::c19_line_k10", "thorough", bounds="10 lines"),
        I("c19::c19_line_k12", bounds="12 lines"),
        I("c19::c19_line_witness", bounds="reachability twin, 3 lines", expect_fail=True),
        I("c19::c19_span_k1", bounds="1 line", no_cover=["line start"]),
        I("c19::c19_span_k2", bounds="2 lines", no_cover=["line start"]),
        I("c19::c19_span_k3", bounds="3 lines", no_cover=["inner line start"]),
        I("c19::c19_span_k4", bounds="4 lines"),
        I("c19::c19_span_k5", "thorough", bounds="5 lines"),
        I("c19::c19_span_k6", "thorough", bounds="6 lines"),
        I("c19::c19_span_k7", "thorough", bounds="7 lines"),
        I("c19::c19_span_k8", "thorough", bounds="8 lines"),
        I("c19::c19_span_k10", "thorough", bounds="10 lines"),
        I("c19::c19_span_k12", bounds="12 lines"),
        I("c19::c19_feed_k1_w1", bounds="1 line + widths [1]"),
        I("c19::c19_feed_k2_w11", bounds="2 lines + widths [1,1]"),
        I("c19::c19_feed_k1_w111", bounds="1 line + widths [1,1,1]"),
        I("c19::c19_feed_k2_w21", bounds="2 lines + widths [2,1]"),
        I("c19::c19_feed_k2_w13", bounds="2 lines + widths [1,3]"),
        I("c19::c19_feed_k3_w141", "thorough", bounds="3 lines + widths [1,4,1]"),
        I("c19::c19_feed_k3_w1111", "thorough", bounds="3 lines + widths [1,1,1,1]"),
        I("c19::c19_feed_k2_w1211", "thorough", bounds="2 lines + widths [1,2,1,1]"),
        I("c19::c19_lex_w11", bounds="lrlex LRNonStreamingLexer::span_lines_str, widths [1,1], every span"),
        I("c19::c19_lex_w111", bounds="span_lines_str, widths [1,1,1]"),
        I("c19::c19_lex_w121", "thorough", bounds="span_lines_str, widths [1,2,1]", est_gb=8),
        I("c19::c19_lexcol_w11", "thorough", bounds="lrlex LRNonStreamingLexer::line_col (lines, columns, consistency), "
          "widths [1,1], every span", est_gb=8, mem_gb=20, timeout_s=3600),
        I("c19::c19_lexcol_w12", "thorough", bounds="line_col, widths [1,2] (a free character, then a 2-byte character)",
          est_gb=8, mem_gb=20, timeout_s=3600),
        I("c19::c19_lexcol_w21", "thorough", bounds="line_col, widths [2,1]", est_gb=8, mem_gb=20, timeout_s=3600),
        I("c19::c19_lexcol_w111", "thorough", bounds="line_col, widths [1,1,1]", est_gb=16, mem_gb=30, timeout_s=7200),
        I("c19::c19_col_w11", bounds="widths [1,1]"),
        I("c19::c19_col_w111", bounds="widths [1,1,1]", est_gb=5),
        I("c19::c19_col_w121", "thorough", bounds="widths [1,2,1]", no_cover=["CR LF"], est_gb=8),
        I("c19::c19_col_w1111", "thorough", bounds="widths [1,1,1,1]", est_gb=8),
    ],
    "jobs": {"quick": 14, "thorough": 10},
}


# ------------------------------------------------------------------------------------------------
import json as _json, os as _os
_SHAPES = _json.load(open(_os.path.join(_os.path.dirname(_os.path.abspath(__file__)), "shapes.json")))
# quick tier: the shapes of G(2,3,2,3) with the most symbolic slots and those mixing empty productions
# quick tier (the 900 s budget of the every-change check decides its size): four shapes of two rules that
# between them have the most symbolic slots, an empty production, a three-production rule and two
# mutually dependent rules with an exit each; plus the G(3,4,3,3) maximum-cost instance that caught a
# flaw in a repair.  Everything else of G(2,3,2,3) / G(2,4,2,3) rotates in by VERIF_SEED.
_QUICK = {
    "g23_a22_b2": ("min", "max"),
    "g23_a2_b20": ("path", "min", "max", "term"),
    "g23_a21_b1": ("path", "min", "max"),
    "g24_a11_b11": ("min", "max"),
    "g34_a22_b1_c0": ("max",),
}


def _c17_instances():
    out = []
    for sh in _SHAPES:
        tag = sh["tag"]
        b = (f"domain {sh['domain']}: {sh['rules']} rules incl. start, {sh['tokens']} tokens incl. EOF, productions "
             f"rule={sh['rule']} len={sh['len']} ({sh['slots']} symbolic slots), token costs 1..255, unwind {sh['unwind']}")
        if sh["domain"] in ("g23", "g24"):
            tier = "rotate"
        else:
            tier = "thorough"
        no_cover = []
        kinds = (("path", ["has_path"]),) if sh["domain"] == "g44" else None
        for kind, term in kinds or (("path", ["has_path"]), ("min", ["rule_min_costs"]), ("max", ["rule_max_costs", "has_path"]),
                           ("term", ["rule_min_costs", "rule_max_costs", "has_path"])):
            t = "quick" if kind in _QUICK.get(tag, ()) else tier
            extra = {"est_gb": 26, "mem_gb": 30, "timeout_s": 5400, "est_s": 2200} if sh["domain"] == "g44" else {
                "est_gb": {"min": 2, "max": 4, "path": 5, "term": 5}[kind] + (2 if sh["domain"] == "g34" else 0),
                "est_s": {"min": 60, "max": 110, "path": 140, "term": 150}[kind]}
            out.append(I(f"c17::c17_{kind}_{tag}", t, bounds=b, termination=term, shape=tag, kind=kind, **extra))
    # FIRST / nullable: Vob-based code, affordable only at a few small shapes (5-20 GB each): the smallest
    # (a chain of three rules ending in an empty production, one user token) in the quick tier
    for tag, b, tier, est in (
            ("t2_a1_b1_c0", "3 user rules in a chain, productions len [1,1,0], ONE user token", "quick", 8),
            ("a1_b1_c0", "3 user rules in a chain, productions len [1,1,0]", "thorough", 12),
            ("a2_b1_c0", "3 user rules, productions len [2,1,0]", "thorough", 20),
            ("a3_b0", "2 user rules, len [3,0]", "thorough", 20),
            ("a21_b0", "2 user rules, len [2,1 | 0]", "thorough", 20),
            ("a2_b2", "2 user rules, len [2 | 2]", "thorough", 20)):
        out.append(I(f"c17::c17_first_{tag}", tier, bounds="FIRST/nullable, " + b + ", all slots symbolic, unwind 6",
                     est_gb=est, mem_gb=30, timeout_s=3600, est_s=400))
    # FOLLOW: affordable only with the kind of every slot concrete, one user token and the minimal unwind (5):
    # 12 min / 29 GB; thorough tier only.  The shape is split along the known finding (known_findings.json):
    # `_rest` = every grammar of the shape but `A: A B t; B: ;` (must verify), `_known` = that grammar alone (its
    # failure "FOLLOW: ... (nothing missing)" is the known finding; anything else it fails is a violation).
    b = ("FOLLOW (YaccFollows::new) at the shape A: R R T; B: (empty) -- which user rule stands in each R slot is free, one "
         "user token, unwind 5; FIRST / nullable for the oracle from an in-harness reference iteration; ")
    out.append(I("c17::c17_fok_t2_a3_b0_rrt_rest", "thorough", bounds=b + "all grammars of the shape except A: A B t",
                 est_gb=34, mem_gb=48, timeout_s=3600, est_s=800))
    out.append(I("c17::c17_fok_t2_a3_b0_rrt_known", "thorough", bounds=b + "the grammar A: A B t; B: ; alone (known finding)",
                 est_gb=20, mem_gb=48, timeout_s=3600, est_s=400))
    return out


PROPS["C17"] = {
    "functions_encoded": [
        "cfgrammar::yacc::YaccGrammar::has_path", "cfgrammar::yacc::grammar::rule_min_costs",
        "cfgrammar::yacc::grammar::rule_max_costs", "SentenceGenerator::{new, min_sentence_cost, max_sentence_cost}",
        "cfgrammar::yacc::firsts::YaccFirsts::{new, is_set, is_epsilon_set, set}",
        "cfgrammar::yacc::follows::YaccFollows::{new, is_set} (thorough tier, one shape)",
        "YaccGrammar::{iter_rules, rule_to_prods, prod, prod_to_rule, rules_len}",
    ],
    "bounds": {
        "quick": "symbolic grammar domains G(2,3,2,3) / G(2,4,2,3): 2 user rules + start rule, 3-4 user productions of "
                 "length <= 2, 2 user tokens + EOF; four shapes every run (a22_b2, a2_b20, a21_b1, a11_b11: min / max / "
                 "termination, reachability on two of them), the maximum-cost instance of one G(3,4,3,3) shape, plus 2 "
                 "further instances per run chosen by VERIF_SEED; per shape EVERY symbol slot (token or user rule), "
                 "every token cost in 1..255 and the candidate fixed point X are solver variables; unwind = derived "
                 "bound (rules + 2 rounds of each fixed-point loop); FIRST/nullable at the shape a1_b1_c0 (a chain of "
                 "three user rules, productions of length 1, 1, 0) with one user token",
        "thorough": "all 36 shapes of G(2,3,2,3) plus 7 hand-picked shapes of G(3,4,3,3) (3 user rules, 4 user "
                    "productions of length <= 3); FIRST/nullable as the least model of the textbook Horn system at "
                    "the shapes a1_b1_c0, a2_b1_c0, a3_b0, a21_b0, a2_b2 (all slots symbolic); reachability for one shape with "
                    "four user rules (a2_b1_c2_d1: 25 has_path calls, 35 min / 24 GB)",
    },
    "outside_claim": [
        "FOLLOW (YaccFollows::new) beyond the single thorough-tier shape (A: R R T; B: empty, one user token, slot kinds "
        "concrete): every larger or fully symbolic shape ran out of memory (DESIGN 8.2); FIRST / nullable only at four "
        "small shapes (15-20 GB each; one of them in the quick tier)",
        "min_sentence / min_sentences: symbolic execution 23 min then out of memory at 25 GB on the smallest shape",
        "grammars with more rules / productions / longer productions than the domain",
        "maximum cost of rules on unit-only cycles: 'recursive' and 'unbounded' differ there; None is accepted "
        "for every rule that reaches a reference cycle",
        "unproductive rules in the minimum-cost harness (assumed away by a symbolic productivity witness)",
    ],
    "assumptions": [
        "min cost: every rule productive (symbolic rank witness)", "token costs >= 1 (the documented precondition)",
        "grammar built through the hook YaccGrammar::verif_from_parts (the object new_from_ast_with_validity_info "
        "produces: rule 0 = start rule, last token = EOF)",
        "trusted: Kani MIR->goto translation, CBMC, CaDiCaL, the oracles (closed-set / sub-solution predicates, "
        "Warshall closure)",
    ],
    "instances": _c17_instances(),
    "jobs": {"quick": 14, "thorough": 14},
}


# ------------------------------------------------------------------------------------------------
_SCANNERS = ["parse_ws", "parse_string", "parse_action", "parse_to_eol", "parse_to_single_colon", "parse_int"]
_STUBS = ["std::hash::RandomState::new -> fixed keys (YaccParser::new builds an empty AST with hash maps; no "
          "claimed property depends on the hash seed)"]

PROPS["C12"] = {
    "functions_encoded": ["cfgrammar::yacc::parser::YaccParser::{new, parse_ws, parse_string, parse_action, "
                          "parse_to_eol, parse_to_single_colon, parse_int::<usize>, lookahead_is, mk_error}",
                          "core::str::<impl str>::parse::<usize>"],
    "bounds": {
        "quick": "texts of a concrete prefix (none, '/*', '//', a quote, '{') followed by 3 characters; each "
                 "character is a free choice from the scanner's alphabet (every character its branches test plus "
                 "a neutral one) or, in the multi-byte instances, a fixed 2-/3-byte character chosen as the non-ASCII "
                 "class-mate of what the scanner tests (Unicode digits, NBSP / line separators, fullwidth colon); start offset a "
                 "free character boundary; newline flag free; parse_int additionally on 20 free decimal digits; "
                 "unwind = bytes + 2",
        "thorough": "as quick plus 4 free characters after the prefix, 5 free characters for parse_ws, 21 digits",
    },
    "outside_claim": [
        "the three top-level parsers (Yacc grammar, lex specification, %grmtools section): regex at every token "
        "(DESIGN 5); only the six regex-free byte-offset scanners of the Yacc parser are claimed",
        "texts longer than the instance sizes; characters outside the instance alphabets",
    ],
    "stubs": _STUBS,
    "assumptions": [
        "parse_action is entered at a '{' and parse_string results are checked from any boundary (their callers' "
        "preconditions)", "start offset on a character boundary (the parser's documented cursor invariant)",
        "trusted: Kani MIR->goto translation, CBMC, CaDiCaL, hooks yacc::parser::verif::*",
    ],
    "instances": [
        I("c12::c12_ws_f2", bounds="2 free chars, 7-letter alphabet (small instance)", termination=_SCANNERS),
        I("c12::c12_string_f2", bounds="2 free chars (small instance)", termination=_SCANNERS),
        I("c12::c12_action_b2", bounds="'{' + 2 free chars (small instance)", termination=_SCANNERS),
        I("c12::c12_eol_f2", bounds="2 free chars (small instance)", termination=_SCANNERS),
        I("c12::c12_colon_f2", bounds="2 free chars (small instance)", termination=_SCANNERS),
        I("c12::c12_int_f2", bounds="2 free chars (small instance)", termination=_SCANNERS),
        I("c12::c12_ws_f3", bounds="3 free chars", termination=_SCANNERS, est_gb=5, mem_gb=16),
        I("c12::c12_ws_block2", "thorough", bounds="'/*' + 2 free chars", termination=_SCANNERS, est_gb=6, mem_gb=16),
        I("c12::c12_ws_line2", bounds="'//' + 2 free chars", termination=_SCANNERS, est_gb=6, mem_gb=16),
        I("c12::c12_ws_mb3", "thorough", bounds="widths [1,2,1]", termination=_SCANNERS, est_gb=6, mem_gb=16),
        I("c12::c12_ws_block3", "thorough", bounds="'/*' + 3 free chars", termination=_SCANNERS, est_gb=10, mem_gb=16),
        I("c12::c12_ws_line3", "thorough", bounds="'//' + 3 free chars", termination=_SCANNERS, est_gb=10, mem_gb=16),
        I("c12::c12_ws_mb", "thorough", bounds="widths [1,2,1,1]", termination=_SCANNERS, est_gb=10, mem_gb=16),
        I("c12::c12_ws_f4", "thorough", bounds="4 free chars", termination=_SCANNERS, est_gb=10, mem_gb=16),
        I("c12::c12_ws_block4", "thorough", bounds="'/*' + 4 free chars", termination=_SCANNERS, est_gb=10, mem_gb=16),
        I("c12::c12_ws_f5", "thorough", bounds="5 free chars", termination=_SCANNERS, est_gb=10, mem_gb=16),
        I("c12::c12_string_q3", bounds="quote + 3 free chars", termination=_SCANNERS),
        I("c12::c12_string_f3", bounds="3 free chars, any start", termination=_SCANNERS),
        I("c12::c12_string_mb", bounds="quote + widths [1,2,1]", termination=_SCANNERS),
        I("c12::c12_string_q4", "thorough", bounds="quote + 4 free chars", termination=_SCANNERS),
        I("c12::c12_action_b3", bounds="'{' + 3 free chars", termination=_SCANNERS),
        I("c12::c12_action_mb", bounds="'{' + widths [1,3,1]", termination=_SCANNERS),
        I("c12::c12_action_b4", "thorough", bounds="'{' + 4 free chars", termination=_SCANNERS),
        I("c12::c12_eol_f3", bounds="widths [1,2,1], 2-byte char = NEXT LINE (U+0085)", termination=_SCANNERS),
        I("c12::c12_eol_mb3", bounds="widths [1,3,1], 3-byte char = PARAGRAPH SEPARATOR", termination=_SCANNERS),
        I("c12::c12_eol_f4", "thorough", bounds="4 free chars", termination=_SCANNERS),
        I("c12::c12_colon_f3", bounds="3 free chars", termination=_SCANNERS),
        I("c12::c12_colon_mb", bounds="widths [1,3,1], 3-byte char = FULLWIDTH COLON", termination=_SCANNERS),
        I("c12::c12_colon_f4", "thorough", bounds="4 free chars", termination=_SCANNERS),
        I("c12::c12_int_f3", bounds="3 free chars", termination=_SCANNERS),
        I("c12::c12_int_mb", bounds="widths [1,1,2], 2-byte char = ARABIC-INDIC DIGIT", termination=_SCANNERS),
        I("c12::c12_int_mb3", bounds="widths [1,3,1], 3-byte char = FULLWIDTH DIGIT", termination=_SCANNERS),
        I("c12::c12_int_d20", bounds="20 free digits", termination=_SCANNERS),
        I("c12::c12_int_d21", "thorough", bounds="21 free digits", termination=_SCANNERS),
    ],
    "jobs": {"quick": 14, "thorough": 12},
}

PROPS["C10"] = {
    "functions_encoded": ["cfgrammar::yacc::parser::YaccParser::{new, parse_ws, parse_string, parse_action, parse_to_eol, "
                          "parse_to_single_colon, parse_int, lookahead_is, mk_error}"],
    "bounds": {
        "quick": "texts of a concrete prefix (none, '/*', '/**', '//') followed by 2..3 characters, each a free choice "
                 "from {space, LF, '/', '*', 'a'} (3-character instance also tab and CR) or a fixed 3-byte "
                 "character; start offset a free character boundary; newline flag free; unwind = bytes + 2. Returned text of "
                 "parse_string / parse_action / parse_to_eol / parse_to_single_colon: a concrete opener (a quote, '{', or "
                 "none) followed by 3-4 characters, each a free choice from the scanner's alphabet or a fixed 2-/3-byte "
                 "character",
        "thorough": "as quick plus 4 free characters after the prefix and 5 free characters without prefix; returned "
                    "text on 5 free characters",
    },
    "outside_claim": [
        "everything in C10 except the layout clause and the text returned by the four string-producing scanners: names, "
        "tokens, declarations, precedences, numbering, spans (regex + string-keyed IndexMap/HashMap, DESIGN 5)",
        "layout / strings / actions longer than the instance sizes; stripping of non-ASCII white space",
    ],
    "stubs": _STUBS,
    "assumptions": [
        "reference skipper written from the Yacc lexical conventions (blanks; newlines iff allowed; // to end of "
        "line; /* to the next */; a lone / ends the skip)",
        "reference string / action / line / colon-field scanners written on bytes from the lexical conventions (DESIGN 4, C10)",
        "trusted: Kani MIR->goto translation, CBMC, CaDiCaL, hooks yacc::parser::verif::{parse_ws_newlines, parse_*_text}",
    ],
    "instances": [
        I("c12::c10_ws_f1", bounds="1 free char over 7-letter alphabet (small instance)", termination=_SCANNERS),
        I("c12::c10_ws_f2", bounds="2 free chars over 7-letter alphabet (small instance)", termination=_SCANNERS),
        I("c12::c10_ws_f3", bounds="3 free chars over 7-letter alphabet", termination=_SCANNERS, est_gb=5, mem_gb=16),
        I("c12::c10_ws_block2", bounds="'/*' + 2 free chars", termination=_SCANNERS, est_gb=6, mem_gb=16),
        I("c12::c10_ws_star2", "thorough", bounds="'/**' + 2 free chars", termination=_SCANNERS, est_gb=8, mem_gb=16),
        I("c12::c10_ws_line2", bounds="'//' + 2 free chars", termination=_SCANNERS, est_gb=6, mem_gb=16),
        I("c12::c10_ws_linemb", "thorough", bounds="'//' + a 3-byte char + 1 free char", termination=_SCANNERS, est_gb=10,
          mem_gb=20, timeout_s=3600, no_cover=["newline where none is allowed"]),
        I("c12::c10_ws_linemb3", "thorough", bounds="'//' + a 3-byte char + 2 free chars", termination=_SCANNERS, est_gb=16,
          mem_gb=30, timeout_s=7200, no_cover=["newline where none is allowed"]),
        I("c12::c10_ws_witness", bounds="reachability twin ('/*' + 2 free chars)", expect_fail=True, est_gb=6, mem_gb=16),
        I("c12::c10_ws_block3", "thorough", bounds="'/*' + 3 free chars", termination=_SCANNERS, est_gb=10, mem_gb=16),
        I("c12::c10_ws_star3", "thorough", bounds="'/**' + 3 free chars", termination=_SCANNERS, est_gb=10, mem_gb=16),
        I("c12::c10_ws_line3", "thorough", bounds="'//' + 3 free chars", termination=_SCANNERS, est_gb=10, mem_gb=16),
        I("c12::c10_ws_mb", "thorough", bounds="widths [1,1,3,1]", termination=_SCANNERS, est_gb=10, mem_gb=16),
        I("c12::c10_ws_f4", "thorough", bounds="4 free chars", termination=_SCANNERS, est_gb=10, mem_gb=16),
        I("c12::c10_ws_block4", "thorough", bounds="'/*' + 4 free chars", termination=_SCANNERS, est_gb=10, mem_gb=16),
        I("c12::c10_ws_f5", "thorough", bounds="5 free chars", termination=_SCANNERS, est_gb=10, mem_gb=16),
        # the text the scanners return (c10txt.rs): offset and every byte of the text vs a byte reference
        I("c10txt::c10_str_q3", bounds="parse_string: a single quote + 3 free chars over {', \", \\, LF, a, b}", termination=_SCANNERS),
        I("c10txt::c10_str_d3", bounds="parse_string: a double quote + 3 free chars", termination=_SCANNERS),
        I("c10txt::c10_str_f3", bounds="parse_string: 3 free chars, free start", termination=_SCANNERS),
        I("c10txt::c10_str_qmb", bounds="parse_string: a double quote + widths [1,2,1,1]", termination=_SCANNERS),
        I("c10txt::c10_str_q4", "thorough", bounds="parse_string: a single quote + 4 free chars", termination=_SCANNERS),
        I("c10txt::c10_str_q5", "thorough", bounds="parse_string: a single quote + 5 free chars", termination=_SCANNERS, mem_gb=16),
        I("c10txt::c10_act_b3", bounds="parse_action: '{' + 3 free chars over {'{', '}', LF, a, space, b}", termination=_SCANNERS),
        I("c10txt::c10_act_b4", bounds="parse_action: '{' + 4 free chars", termination=_SCANNERS),
        I("c10txt::c10_act_mb", bounds="parse_action: '{' + widths [1,3,1,1]", termination=_SCANNERS),
        I("c10txt::c10_act_b5", "thorough", bounds="parse_action: '{' + 5 free chars", termination=_SCANNERS, mem_gb=16),
        I("c10txt::c10_eol_f3", bounds="parse_to_eol: 3 free chars over {a, LF, CR, b}, free start", termination=_SCANNERS),
        I("c10txt::c10_eol_mb", bounds="parse_to_eol: widths [1,2,1,1], free start", termination=_SCANNERS),
        I("c10txt::c10_eol_f5", "thorough", bounds="parse_to_eol: 5 free chars, free start", termination=_SCANNERS),
        I("c10txt::c10_col_f3", bounds="parse_to_single_colon: 3 free chars over {':', a, LF, space, b}, free start", termination=_SCANNERS),
        I("c10txt::c10_col_f4", bounds="parse_to_single_colon: 4 free chars, free start", termination=_SCANNERS),
        I("c10txt::c10_col_mb", bounds="parse_to_single_colon: widths [1,3,1,1], free start", termination=_SCANNERS),
        I("c10txt::c10_col_f5", "thorough", bounds="parse_to_single_colon: 5 free chars, free start", termination=_SCANNERS, mem_gb=16),
        I("c10txt::c10_int_f3", bounds="parse_int: 3 free chars over {0, 9, 5, a, space}, free start; value vs reference", termination=_SCANNERS),
        I("c10txt::c10_int_mb", bounds="parse_int: widths [1,2,1,1] (2-byte char = ARABIC-INDIC DIGIT), free start", termination=_SCANNERS),
        I("c10txt::c10_int_f5", "thorough", bounds="parse_int: 5 free chars, free start", termination=_SCANNERS),
        I("c12::c12_int_d20", bounds="parse_int: 20 free digits, value vs a 128-bit reference (numbers next to usize::MAX)", termination=_SCANNERS),
        I("c10txt::c10_txt_witness", bounds="reachability twin (a quote + 2 free chars)", expect_fail=True),
    ],
    "jobs": {"quick": 14, "thorough": 12},
}


def select(prop, tier, seed):
    """Instances to run.  seed=None: all instances of the tier (for the total count)."""
    out = []
    rot = [i for i in PROPS[prop]["instances"] if i["tier"] == "rotate"]
    chosen = set()
    if seed is not None and rot:
        for k in range(min(ROTATE_PER_RUN, len(rot))):
            chosen.add(rot[(seed * ROTATE_PER_RUN + k) % len(rot)]["harness"])
    for i in PROPS[prop]["instances"]:
        if i["tier"] == "quick":
            out.append(i)
        elif i["tier"] == "thorough":
            if tier == "thorough":
                out.append(i)
        elif i["tier"] == "rotate":
            if tier == "thorough" or seed is None or i["harness"] in chosen:
                out.append(i)
    return out
