"""Harness instances per property: which Kani harness, in which tier, under which caps.

An *instance* is one harness of /verif/kani with its concrete size parameters compiled in (lengths
and counts are concrete per instance, contents symbolic: DESIGN.md 2.2).  `tier`:
  "quick"    runs in both tiers;
  "thorough" runs only in the thorough tier;
  "rotate"   runs in the thorough tier, and in the quick tier only when selected by VERIF_SEED
             (ROTATE_PER_RUN of them per quick run).
"""
import subprocess

ROTATE_PER_RUN = 2


def repo_rev():
    try:
        r = subprocess.run(["git", "-C", "/repo", "rev-parse", "--short", "HEAD"], capture_output=True, text=True)
        d = subprocess.run(["git", "-C", "/repo", "status", "--porcelain", "--untracked-files=no"],
                           capture_output=True, text=True)
        return r.stdout.strip() + ("+dirty" if d.stdout.strip() else "")
    except Exception:
        return "unknown"


def I(harness, tier="quick", **kw):
    d = {"harness": harness, "tier": tier}
    d.update(kw)
    return d


PROPS = {}

# ------------------------------------------------------------------------------------------------
PROPS["C03"] = {
    "functions_encoded": [
        "lrtable::statetable::resolve_shift_reduce", "lrtable::StateTable::encode", "lrtable::StateTable::decode",
        "cfgrammar::yacc::YaccGrammar::token_precedence", "cfgrammar::yacc::YaccGrammar::prod_precedence",
    ],
    "bounds": "token and production Option<Precedence> fully symbolic (64-bit level, kind, presence); shift "
              "target and conflict state symbolic (u8); Action index symbolic over the whole u8/u16/u32 range; "
              "grammar E: E '+' E | 'n' concrete; unwind 5 (no data-dependent loop)",
    "outside_claim": [
        "reduce/reduce rule, exactness of the conflict lists, every-cell-of-every-state clause: live in "
        "StateTable::new over Itemset hash maps (DESIGN 5, probe 16)",
        "%expect comparison in CTParserBuilder::build (between file-system calls)",
        "mixed associativity kinds at one level (cannot come from a .y file; explicit panic) assumed away",
    ],
    "assumptions": [
        "kani::assume(level differs or kind equal) -- one %left/%right/%nonassoc line has one kind",
        "trusted: Kani MIR->goto translation, CBMC, CaDiCaL, hooks verif_resolve_shift_reduce/verif_encode/verif_decode",
    ],
    "instances": [
        I("c03::c03_resolve_sr", bounds="precedences symbolic; u8 storage"),
        I("c03::c03_resolve_sr_u32", bounds="precedences symbolic; u32 storage"),
        I("c03::c03_encode_u8", bounds="all u8 indices"),
        I("c03::c03_encode_u16", bounds="all u16 indices"),
        I("c03::c03_encode_u32", bounds="all u32 indices"),
        I("c03::c03_witness", bounds="reachability twin", expect_fail=True),
    ],
    "jobs": {"quick": 6, "thorough": 6},
}


def select(prop, tier, seed):
    """Instances to run.  seed=None: all instances of the tier (for the total count)."""
    out = []
    rot = [i for i in PROPS[prop]["instances"] if i["tier"] == "rotate"]
    chosen = set()
    if seed is not None and rot:
        for k in range(min(ROTATE_PER_RUN, len(rot))):
            chosen.add(rot[(seed * ROTATE_PER_RUN + k) % len(rot)]["harness"])
    for i in PROPS[prop]["instances"]:
        if i["tier"] == "quick":
            out.append(i)
        elif i["tier"] == "thorough":
            if tier == "thorough":
                out.append(i)
        elif i["tier"] == "rotate":
            if tier == "thorough" or seed is None or i["harness"] in chosen:
                out.append(i)
    return out
