#!/usr/bin/env python3
"""Confirm a seeded change independently: in a scratch worktree, with the patch applied the existing
test suite passes and the demonstration fails (or hangs); without it the demonstration passes.
usage: confirm_seed.py <worktree> <outdir> <m-id>   -> prints a JSON record"""
import json, os, re, subprocess, sys, time

wt, out, mid = sys.argv[1:4]
env = dict(os.environ, CARGO_TARGET_DIR=os.path.join(wt, "target"), CARGO_NET_OFFLINE="true")
patch = os.path.join(out, mid + ".patch.diff")
demo = os.path.join(out, mid + ".demo.rs")


def sh(cmd, timeout=3600):
    try:
        r = subprocess.run(cmd, shell=True, cwd=wt, env=env, capture_output=True, text=True, timeout=timeout)
        return r.returncode, r.stdout + r.stderr
    except subprocess.TimeoutExpired as e:
        return 124, "TIMEOUT"


def clean():
    sh("git checkout -- . && git clean -fdq -e target")


head = open(demo).read(4000)
m = re.search(r"cp\s+\S+\s+(\S+/tests/(\S+)\.rs)", head)
dest, tname = m.group(1), m.group(2)
crate = dest.split("/")[0]
rec = {"id": mid, "crate": crate, "demo_dest": dest}
clean()
rc, o = sh(f"git apply {patch}")
rec["patch_applies"] = rc == 0
rc, o = sh("cargo test --workspace --no-fail-fast --offline 2>&1 | grep -E '^test result|FAILED|failed' ")
res = re.findall(r"test result: (\w+)\. (\d+) passed; (\d+) failed", o)
rec["suite_with_patch"] = {"passed": sum(int(x[1]) for x in res), "failed": sum(int(x[2]) for x in res)}
os.makedirs(os.path.join(wt, os.path.dirname(dest)), exist_ok=True)
sh(f"cp {demo} {dest}")
rc, o = sh(f"timeout 300 cargo test --offline -p {crate} --test {tname} 2>&1 | tail -30", timeout=900)
rec["demo_with_patch"] = "fails" if ("test result: FAILED" in o or "panicked" in o or rc in (124,) or "TIMEOUT" in o or "timed out" in o.lower()) else ("passes" if "test result: ok" in o else "unknown")
rec["demo_with_patch_tail"] = o[-600:]
sh(f"git apply -R {patch}")
rc, o = sh(f"timeout 300 cargo test --offline -p {crate} --test {tname} 2>&1 | tail -15", timeout=900)
rec["demo_without_patch"] = "passes" if "test result: ok" in o and "FAILED" not in o else "fails"
clean()
print(json.dumps(rec))
