#!/bin/bash
# Run a check against a seeded change in a scratch worktree that follows /repo HEAD.           
id=$1; tier=${2:-quick}; pid=${id%%-*}
case "$id" in *-r5*) wt=/tmp/seed5/$pid;; *-r4*) wt=/tmp/seed4/$pid;; *-r3*) wt=/tmp/seed3/$pid;; *-r2*) wt=/tmp/seed2/$pid;; *) wt=/tmp/seed/$pid;; esac
cd /verif
git -C $wt checkout -q -- . && git -C $wt clean -fdq -e target
git -C $wt checkout -q --detach $(git -C /repo rev-parse HEAD)
git -C $wt apply /verif/seeded/$id/patch.diff || { echo "patch does not apply" > seeded/$id/result.$tier.txt; exit 3; }
start=$(date +%s)
bin/check $pid --tier $tier ${ONLY:+--only $ONLY} --repo $wt > seeded/$id/result.$tier.txt 2>&1
rc=$?
echo "exit=$rc wall=$(( $(date +%s) - start ))s base=$(git -C $wt rev-parse --short HEAD)" >> seeded/$id/result.$tier.txt
git -C $wt checkout -q -- . && git -C $wt clean -fdq -e target
exit $rc
