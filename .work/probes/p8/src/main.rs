use cfgrammar::{PIdx, RIdx, Symbol, TIdx, yacc::YaccGrammar};
use lrtable::{from_yacc, Minimiser, Action, StIdx};
fn main() {
    // ^: S ; S: 'a' ;   tokens: a $
    let prods = vec![
        vec![Symbol::Token(TIdx(0u8))],
        vec![Symbol::Rule(RIdx(1))],
    ];
    let prods_rules = vec![RIdx(1u8), RIdx(0)];
    let g = YaccGrammar::<u8>::verif_from_parts(2, 2, prods, prods_rules, vec![None; 2], vec![None; 2], PIdx(1));
    let (sg, st) = from_yacc(&g, Minimiser::Pager).unwrap();
    let ns = usize::from(sg.all_states_len());
    let (nt, nr, np) = (2usize, 2usize, 2usize);
    println!("pub const NS: usize = {};", ns);
    print!("pub fn actions() -> Vec<Action<u8>> {{ vec![");
    for s in 0..ns { for t in 0..nt { match st.action(StIdx(s as u8), TIdx(t as u8)) {
        Action::Shift(x) => print!("Action::Shift(StIdx({})),", usize::from(x)),
        Action::Reduce(p) => print!("Action::Reduce(PIdx({})),", usize::from(p)),
        Action::Accept => print!("Action::Accept,"), Action::Error => print!("Action::Error,") } } }
    println!("] }}");
    print!("pub fn gotos() -> Vec<Option<StIdx<u8>>> {{ vec![");
    for s in 0..ns { for r in 0..nr { match st.goto(StIdx(s as u8), RIdx(r as u8)) {
        Some(x) => print!("Some(StIdx({})),", usize::from(x)), None => print!("None,") } } }
    println!("] }}");
    let mut sa = vec![false; ns*nt]; let mut ss = vec![false; ns*nt]; let mut cr = vec![false; ns*np]; let mut rs = vec![false; ns];
    for s in 0..ns {
        for t in st.state_actions(StIdx(s as u8)) { sa[s*nt+usize::from(t)] = true; }
        for t in st.state_shifts(StIdx(s as u8)) { ss[s*nt+usize::from(t)] = true; }
        for p in st.core_reduces(StIdx(s as u8)) { cr[s*np+usize::from(p)] = true; }
        rs[s] = st.reduce_only_state(StIdx(s as u8));
    }
    println!("pub const SA: [bool; {}] = {:?};", sa.len(), sa);
    println!("pub const SS: [bool; {}] = {:?};", ss.len(), ss);
    println!("pub const CR: [bool; {}] = {:?};", cr.len(), cr);
    println!("pub const RS: [bool; {}] = {:?};", rs.len(), rs);
    println!("pub const START: u8 = {};", usize::from(st.start_state()));
}
