#[cfg(kani)]
mod h {
    use cfgrammar::{PIdx, RIdx, Symbol, TIdx, yacc::YaccGrammar};
    pub const R: usize = 3; // incl start rule 0
    pub const T: usize = 2; // token 0 + EOF(1)
    pub const UP: usize = 2;
    pub const L: usize = 3;
    pub const SHAPE_LEN: [usize; UP] = [3, 0];
    pub const SHAPE_RULE: [u8; UP] = [1, 2];

    fn any_sym() -> Symbol<u8> {
        let is_tok: bool = kani::any();
        let v: u8 = kani::any();
        if is_tok { kani::assume((v as usize) < T - 1); Symbol::Token(TIdx(v)) }
        else { kani::assume(v >= 1 && (v as usize) < R); Symbol::Rule(RIdx(v)) }
    }
    fn any_grammar() -> YaccGrammar<u8> {
        let mut prods = Vec::with_capacity(UP + 1);
        let mut prods_rules = Vec::with_capacity(UP + 1);
        for i in 0..UP {
            let len = SHAPE_LEN[i];
            let mut p = Vec::with_capacity(len);
            for _ in 0..len { p.push(any_sym()); }
            prods.push(p);
            prods_rules.push(RIdx(SHAPE_RULE[i]));
        }
        prods.push(vec![Symbol::Rule(RIdx(1))]);
        prods_rules.push(RIdx(0));
        YaccGrammar::verif_from_parts(R, T, prods, prods_rules, vec![None; T], vec![None; UP + 1], PIdx(UP as u8))
    }

    #[derive(Clone, Copy)]
    enum S { Tok(usize), Rule(usize), None }

    fn closed(p: &[[S; L]; UP + 1], plen: &[usize; UP + 1], prule: &[usize; UP + 1],
              n: &[bool; R], f: &[[bool; T]; R], w: &[[bool; T]; R]) -> bool {
        let mut ok = true;
        if !w[0][T - 1] { ok = false; }
        for pi in 0..UP + 1 {
            let a = prule[pi];
            // nullable + first
            let mut pre = true;
            for i in 0..L { if i < plen[pi] {
                match p[pi][i] {
                    S::Tok(t) => { if pre && !f[a][t] { ok = false; } pre = false; }
                    S::Rule(b) => {
                        if pre { for t in 0..T { if f[b][t] && !f[a][t] { ok = false; } } }
                        if !n[b] { pre = false; }
                    }
                    S::None => {}
                }
            } }
            if pre && !n[a] { ok = false; }
            // follow
            for i in 0..L { if i < plen[pi] { if let S::Rule(b) = p[pi][i] {
                let mut mid = true; // alpha_{i+1..j-1} all nullable
                for j in 0..L { if j > i && j < plen[pi] {
                    match p[pi][j] {
                        S::Tok(t) => { if mid && !w[b][t] { ok = false; } mid = false; }
                        S::Rule(c) => {
                            if mid { for t in 0..T { if f[c][t] && !w[b][t] { ok = false; } } }
                            if !n[c] { mid = false; }
                        }
                        S::None => {}
                    }
                } }
                if mid { for t in 0..T { if w[a][t] && !w[b][t] { ok = false; } } }
            } } }
        }
        ok
    }

    #[kani::proof]
    #[kani::unwind(4)]
    fn follows_exact() {
        let g = any_grammar();
        // copy grammar into plain arrays via concrete indices
        let mut p = [[S::None; L]; UP + 1];
        let mut plen = [0usize; UP + 1];
        let mut prule = [0usize; UP + 1];
        for pi in 0..UP + 1 {
            let prod = g.prod(PIdx(pi as u8));
            plen[pi] = prod.len();
            prule[pi] = usize::from(g.prod_to_rule(PIdx(pi as u8)));
            for i in 0..L { if i < prod.len() { p[pi][i] = match prod[i] { Symbol::Token(t) => S::Tok(usize::from(t)), Symbol::Rule(r) => S::Rule(usize::from(r)) }; } }
        }
        let fi = g.firsts();
        let fo = g.follows();
        let mut n = [false; R]; let mut f = [[false; T]; R]; let mut w = [[false; T]; R];
        for r in 0..R { n[r] = fi.is_epsilon_set(RIdx(r as u8)); for t in 0..T { f[r][t] = fi.is_set(RIdx(r as u8), TIdx(t as u8)); w[r][t] = fo.is_set(RIdx(r as u8), TIdx(t as u8)); } }
        assert!(closed(&p, &plen, &prule, &n, &f, &w));
        let xn: [bool; R] = kani::any(); let xf: [[bool; T]; R] = kani::any(); let xw: [[bool; T]; R] = kani::any();
        if closed(&p, &plen, &prule, &xn, &xf, &xw) {
            for r in 0..R { assert!(!n[r] || xn[r]); for t in 0..T { assert!(!f[r][t] || xf[r][t]); assert!(!w[r][t] || xw[r][t]); } }
        }
        kani::cover!(n[2] && w[1][0]);
        std::mem::forget(fi); std::mem::forget(fo); std::mem::forget(g);
    }
}
