#[cfg(kani)]
mod h {
    use cfgrammar::{PIdx, RIdx, SIdx, Symbol, TIdx, yacc::{YaccGrammar, Precedence, AssocKind}};
    use lrtable::{Action, StIdx, StateTable, verif::{Itemset, resolve_shift_reduce, weakly_compatible}};
    use vob::Vob;

    fn any_prec() -> Option<Precedence> {
        if kani::any() {
            let level: u64 = kani::any();
            let k: u8 = kani::any();
            kani::assume(k < 3);
            Some(Precedence { level, kind: match k { 0 => AssocKind::Left, 1 => AssocKind::Right, _ => AssocKind::Nonassoc } })
        } else { None }
    }
    fn grm(tp: Option<Precedence>, pp: Option<Precedence>) -> YaccGrammar<u8> {
        let prods = vec![
            vec![Symbol::Rule(RIdx(1u8)), Symbol::Token(TIdx(0)), Symbol::Rule(RIdx(1))],
            vec![Symbol::Token(TIdx(1))],
            vec![Symbol::Rule(RIdx(1))],
        ];
        let prods_rules = vec![RIdx(1u8), RIdx(1), RIdx(0)];
        YaccGrammar::<u8>::verif_from_parts(2, 3, prods, prods_rules, vec![tp, None, None], vec![pp, None, None], PIdx(2))
    }

    #[kani::proof]
    #[kani::unwind(5)]
    fn k_resolve() {
        let tp = any_prec();
        let pp = any_prec();
        if let (Some(a), Some(b)) = (tp, pp) { kani::assume(a.level != b.level || a.kind == b.kind); }
        let g = grm(tp, pp);
        let mut actions = [StateTable::<u8>::verif_encode(Action::Reduce(PIdx(0)))];
        let mut sr = Vec::new();
        resolve_shift_reduce(&g, &mut actions, 0, TIdx(0), PIdx(0), StIdx(7), &mut sr, StIdx(3));
        let a = StateTable::<u8>::verif_decode(actions[0]);
        match (tp, pp) {
            (None, _) | (_, None) => { assert!(a == Action::Shift(StIdx(7))); assert!(sr.len() == 1); }
            (Some(t), Some(p)) => {
                assert!(sr.len() == 0);
                if t.level > p.level { assert!(a == Action::Shift(StIdx(7))); }
                else if t.level < p.level { assert!(a == Action::Reduce(PIdx(0))); }
                else { match t.kind {
                    AssocKind::Left => assert!(a == Action::Reduce(PIdx(0))),
                    AssocKind::Right => assert!(a == Action::Shift(StIdx(7))),
                    AssocKind::Nonassoc => assert!(a == Action::Error),
                } }
            }
        }
        std::mem::forget(g); std::mem::forget(sr);
    }

    #[kani::proof]
    fn k_encode() {
        let v: u8 = kani::any();
        let k: u8 = kani::any();
        let a = match k % 4 { 0 => Action::Shift(StIdx(v)), 1 => Action::Reduce(PIdx(v)), 2 => Action::Accept, _ => Action::Error };
        assert!(StateTable::<u8>::verif_decode(StateTable::<u8>::verif_encode(a)) == a);
    }

    fn any_ctx(n: usize) -> (Vob, [bool; 3]) {
        let mut v = Vob::from_elem(false, n);
        let mut b = [false; 3];
        for i in 0..3 { if i < n { let x: bool = kani::any(); b[i] = x; if x { v.set(i, true); } } }
        (v, b)
    }

    #[kani::proof]
    #[kani::unwind(8)]
    fn k_weakly() {
        let g = grm(None, None);
        let mut a = Itemset::new(&g);
        let mut b = Itemset::new(&g);
        let (a0, ba0) = any_ctx(3); let (a1, ba1) = any_ctx(3);
        let (b0, bb0) = any_ctx(3); let (b1, bb1) = any_ctx(3);
        a.add(PIdx(0), SIdx(1), &a0); a.add(PIdx(0), SIdx(3), &a1);
        b.add(PIdx(0), SIdx(1), &b0); b.add(PIdx(0), SIdx(3), &b1);
        let inter = |x: &[bool; 3], y: &[bool; 3]| (x[0] && y[0]) || (x[1] && y[1]) || (x[2] && y[2]);
        let expect = !(inter(&ba0, &bb1) || inter(&ba1, &bb0)) || inter(&ba0, &ba1) || inter(&bb0, &bb1);
        assert!(weakly_compatible(&a, &b) == expect);
        std::mem::forget(a); std::mem::forget(b); std::mem::forget(g);
    }
}
