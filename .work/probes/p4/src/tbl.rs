pub const NS: usize = 5;
pub fn actions() -> Vec<Action<u8>> { vec![Action::Shift(StIdx(2)),Action::Shift(StIdx(1)),Action::Error,Action::Error,Action::Error,Action::Reduce(PIdx(1)),Action::Shift(StIdx(2)),Action::Shift(StIdx(1)),Action::Error,Action::Error,Action::Error,Action::Accept,Action::Error,Action::Error,Action::Reduce(PIdx(0)),] }
pub fn gotos() -> Vec<Option<StIdx<u8>>> { vec![None,Some(StIdx(3)),None,None,None,Some(StIdx(4)),None,None,None,None,] }
pub const SA: [bool; 15] = [true, true, false, false, false, true, true, true, false, false, false, true, false, false, true];
pub const SS: [bool; 15] = [true, true, false, false, false, false, true, true, false, false, false, false, false, false, false];
pub const CR: [bool; 15] = [false, false, false, false, true, false, false, false, false, false, false, false, true, false, false];
pub const RS: [bool; 5] = [false, true, false, false, true];
pub const START: u8 = 0;
