#[cfg(kani)]
mod h {
    use cfgrammar::{PIdx, RIdx, Span, Symbol, TIdx, yacc::YaccGrammar};
    use lrpar::{LexError, Lexeme, Lexer, LexerTypes, NonStreamingLexer, RTParserBuilder, RecoveryKind, LexParseError};
    use lrtable::{Action, StIdx, StateTable};
    include!("tbl.rs");
    use std::{error::Error, fmt};

    #[derive(Debug, Clone)]
    pub struct LT();
    impl LexerTypes for LT {
        type LexemeT = Lx;
        type StorageT = u8;
        type LexErrorT = LE;
    }
    #[derive(Clone, Copy, Debug, Eq, Hash, PartialEq)]
    pub struct Lx { start: usize, len: usize, faulty: bool, tok: u8 }
    impl Lexeme<u8> for Lx {
        fn new(tok: u8, start: usize, len: usize) -> Self { Lx { start, len, faulty: false, tok } }
        fn new_faulty(tok: u8, start: usize, len: usize) -> Self { Lx { start, len, faulty: true, tok } }
        fn tok_id(&self) -> u8 { self.tok }
        fn span(&self) -> Span { Span::new(self.start, self.start + self.len) }
        fn faulty(&self) -> bool { self.faulty }
    }
    impl fmt::Display for Lx { fn fmt(&self, _: &mut fmt::Formatter) -> fmt::Result { Ok(()) } }
    #[derive(Debug)]
    pub struct LE {}
    impl LexError for LE { fn span(&self) -> Span { Span::new(0, 0) } }
    impl Error for LE {}
    impl fmt::Display for LE { fn fmt(&self, _: &mut fmt::Formatter) -> fmt::Result { Ok(()) } }

    pub struct VL { lexemes: Vec<Lx> }
    impl Lexer<LT> for VL {
        fn iter<'a>(&'a self) -> Box<dyn Iterator<Item = Result<Lx, LE>> + 'a> {
            Box::new(self.lexemes.iter().map(|x| Ok(*x)))
        }
    }
    impl<'input> NonStreamingLexer<'input, LT> for VL {
        fn span_str(&self, _: Span) -> &'input str { "" }
        fn span_lines_str(&self, _: Span) -> &'input str { "" }
        fn line_col(&self, _: Span) -> ((usize, usize), (usize, usize)) { ((1, 1), (1, 1)) }
    }

    // ^: S ;  S: 'a' S | 'b' ;
    fn grm() -> YaccGrammar<u8> {
        let prods = vec![
            vec![Symbol::Token(TIdx(0)), Symbol::Rule(RIdx(1))],
            vec![Symbol::Token(TIdx(1))],
            vec![Symbol::Rule(RIdx(1))],
        ];
        let prods_rules = vec![RIdx(1), RIdx(1), RIdx(0)];
        YaccGrammar::verif_from_parts(2, 3, prods, prods_rules, vec![None; 3], vec![None; 3], PIdx(2))
    }

    const N: usize = 3;

    #[kani::proof]
    #[kani::unwind(17)]
    fn parse_sym() {
        let g = grm();
        let st = StateTable::<u8>::verif_from_parts(&actions(), &gotos(), 2, 3, 3, StIdx(START), &SA, &SS, &CR, &RS);
        let n: usize = kani::any();
        kani::assume(n <= N);
        let mut toks = [0u8; N];
        let mut lexemes = Vec::with_capacity(N);
        for i in 0..N {
            let t: u8 = kani::any();
            kani::assume(t < 2);
            toks[i] = t;
            if i < n { lexemes.push(Lx::new(t, i, 1)); }
        }
        let lexer = VL { lexemes };
        let pb = RTParserBuilder::<u8, LT>::new(&g, &st).recoverer(RecoveryKind::None);
        let (r, errs) = pb.parse_map(&lexer, &|_| 1usize, &|_, v: Vec<usize>| { let mut s = 0; for x in v.iter() { s += *x; } s });
        // oracle: language a^k b
        let mut in_lang = n >= 1;
        for i in 0..N {
            if i + 1 < n && toks[i] != 0 { in_lang = false; }
            if i + 1 == n && toks[i] != 1 { in_lang = false; }
        }
        assert!(r.is_some() == in_lang);
        assert!(errs.is_empty() == in_lang);
        if let Some(v) = r { assert!(v == n); }
        kani::cover!(in_lang && n == 3);
        kani::cover!(!in_lang && n == 2);
        std::mem::forget(errs);
        std::mem::forget(lexer);
        std::mem::forget(st);
        std::mem::forget(g);
    }
}
