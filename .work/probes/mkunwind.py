import re,subprocess,sys
out=sys.argv[1]; pat=re.compile(sys.argv[2]); n=sys.argv[3]
txt=subprocess.run(['cbmc','--show-loops',out],capture_output=True,text=True).stdout
ids=[]
cur=None
for line in txt.splitlines():
    m=re.match(r'^Loop (\S+):$',line)
    if m: cur=m.group(1); continue
    if cur and 'function' in line:
        fn=line.split('function',1)[1]
        if pat.search(fn): ids.append(cur)
        cur=None
print(','.join(f'{i}:{n}' for i in ids))
