#[cfg(kani)]
mod h {
    use cfgrammar::{PIdx, RIdx, Symbol, TIdx, yacc::YaccGrammar};
    pub const R: usize = 3;
    pub const T: usize = 3;
    pub const UP: usize = 3;
    pub const SHAPE_LEN: [usize; UP] = [2, 2, 1];
    pub const SHAPE_RULE: [u8; UP] = [1, 2, 1];

    fn any_sym() -> Symbol<u8> {
        let is_tok: bool = kani::any();
        let v: u8 = kani::any();
        if is_tok { kani::assume((v as usize) < T - 1); Symbol::Token(TIdx(v)) }
        else { kani::assume(v >= 1 && (v as usize) < R); Symbol::Rule(RIdx(v)) }
    }
    pub fn any_grammar() -> YaccGrammar<u8> {
        let mut prods = Vec::with_capacity(UP + 1);
        let mut prods_rules = Vec::with_capacity(UP + 1);
        for i in 0..UP {
            let len = SHAPE_LEN[i];
            let mut p = Vec::with_capacity(len);
            for _ in 0..len { p.push(any_sym()); }
            prods.push(p);
            prods_rules.push(RIdx(SHAPE_RULE[i]));
        }
        prods.push(vec![Symbol::Rule(RIdx(1))]);
        prods_rules.push(RIdx(0));
        YaccGrammar::verif_from_parts(R, T, prods, prods_rules, vec![None; T], vec![None; UP + 1], PIdx(UP as u8))
    }

    #[kani::proof]
    #[kani::unwind(6)]
    fn has_path_exact() {
        let g = any_grammar();
        let from: u8 = kani::any(); kani::assume((from as usize) < R);
        // result row
        let mut r = [false; R];
        for to in 0..R { r[to] = g.has_path(RIdx(from), RIdx(to as u8)); }
        let x: [bool; R] = kani::any();
        let mut r_closed = true; let mut x_closed = true;
        for pidx in 0..UP + 1 {
            let a = usize::from(g.prod_to_rule(PIdx(pidx as u8)));
            let prod = g.prod(PIdx(pidx as u8));
            for k in 0..2 { if k < prod.len() { if let Symbol::Rule(b) = prod[k] {
                let b = usize::from(b);
                if (a == from as usize || r[a]) && !r[b] { r_closed = false; }
                if (a == from as usize || x[a]) && !x[b] { x_closed = false; }
            } } }
        }
        assert!(r_closed);
        if x_closed { for to in 0..R { assert!(!r[to] || x[to]); } }
        kani::cover!(r[2] && !r[0]);
        std::mem::forget(g);
    }

    #[kani::proof]
    #[kani::unwind(6)]
    fn min_cost_exact() {
        let g = any_grammar();
        let costs: [u8; T] = kani::any();
        for t in 0..T { kani::assume(costs[t] >= 1 && costs[t] <= 3); }
        // productivity witness: rank in 0..R, each user rule has a production whose rule symbols have smaller rank
        let rank: [u8; R] = kani::any();
        for a in 1..R {
            kani::assume((rank[a] as usize) < R);
            let mut ok_rule = false;
            for pidx in 0..UP {
                if usize::from(g.prod_to_rule(PIdx(pidx as u8))) != a { continue; }
                let prod = g.prod(PIdx(pidx as u8));
                let mut ok = true;
                for k in 0..2 { if k < prod.len() { if let Symbol::Rule(b) = prod[k] { if rank[usize::from(b)] >= rank[a] { ok = false; } } } }
                if ok { ok_rule = true; }
            }
            kani::assume(ok_rule);
        }
        let sg = g.sentence_generator(|t| costs[usize::from(t)]);
        let mut r = [0u32; R];
        for a in 0..R { r[a] = sg.min_sentence_cost(RIdx(a as u8)) as u32; }
        let x: [u8; R] = kani::any();
        let mut r_sub = true; let mut x_sub = true;
        for pidx in 0..UP + 1 {
            let a = usize::from(g.prod_to_rule(PIdx(pidx as u8)));
            let prod = g.prod(PIdx(pidx as u8));
            let mut sr = 0u32; let mut sx = 0u32;
            for k in 0..2 { if k < prod.len() { match prod[k] {
                Symbol::Token(t) => { sr += costs[usize::from(t)] as u32; sx += costs[usize::from(t)] as u32; }
                Symbol::Rule(b) => { sr += r[usize::from(b)]; sx += x[usize::from(b)] as u32; }
            } } }
            if r[a] > sr { r_sub = false; }
            if (x[a] as u32) > sx { x_sub = false; }
        }
        assert!(r_sub);
        if x_sub { for a in 0..R { assert!((x[a] as u32) <= r[a]); } }
        kani::cover!(r[1] == 4);
        std::mem::forget(sg); std::mem::forget(g);
    }
}
