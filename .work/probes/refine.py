import re,subprocess,sys,time
out,U,R=sys.argv[1],sys.argv[2],sys.argv[3]
txt=subprocess.run(['cbmc','--show-loops',out],capture_output=True,text=True).stdout
m={}; cur=None
for line in txt.splitlines():
    mm=re.match(r'^Loop (\S+):$',line)
    if mm: cur=mm.group(1); continue
    if cur and ' function ' in line:
        fn=line.split(' function ',1)[1].strip()
        m[(fn,cur.rsplit('.',1)[1])]=cur; cur=None
base="--no-malloc-may-fail --no-undefined-shift-check --no-signed-overflow-check --nan-check --no-self-loops-to-assumptions --no-pointer-primitive-check --object-bits 16 --unwinding-assertions --sat-solver cadical --slice-formula --max-field-sensitivity-array-size 1024".split()
us={}
for it in range(1,8):
    args=['cbmc']+base+['--unwind',U]
    if us: args+=['--unwindset',','.join(f'{k}:{v}' for k,v in us.items())]
    t=time.time(); r=subprocess.run(args+[out],capture_output=True,text=True); dt=time.time()-t
    open(f'refine.{it}.log','w').write(r.stdout+r.stderr)
    fails=re.findall(r'^\[(.*)\.unwind\.(\d+)\] .*unwinding assertion loop \d+: FAILURE',r.stdout,re.M)
    other=[l for l in r.stdout.splitlines() if l.endswith(': FAILURE') and 'reachability_check' not in l and 'unwinding assertion' not in l]
    print(f'iter {it}: {dt:.1f}s unwinding_failures={len(fails)} other_failures={len(other)}',flush=True)
    if not fails:
        for l in other[:10]: print('   ',l[:200])
        print(r.stdout.strip().splitlines()[-1]); break
    for fn,n in fails:
        k=m.get((fn,n))
        if k is None: print('unmapped',fn[:80],n); continue
        us[k]=R
