#[cfg(kani)]
mod h {
    use cfgrammar::yacc::parser::verif::parse_ws;
    const N: usize = 4;

    fn fixed_rs() -> std::hash::RandomState { unsafe { std::mem::transmute::<[u64; 2], std::hash::RandomState>([1, 2]) } }

    #[kani::proof]
    #[kani::unwind(8)]
    #[kani::stub(std::hash::RandomState::new, fixed_rs)]
    fn ws_total() {
        let mut buf = [0u8; N];
        let len: usize = kani::any();
        kani::assume(len <= N);
        for i in 0..N {
            let c: u8 = kani::any();
            kani::assume(c == b' ' || c == b'\n' || c == b'/' || c == b'*' || c == b'a');
            buf[i] = c;
        }
        let s = unsafe { std::str::from_utf8_unchecked(&buf[..len]) };
        let i: usize = kani::any();
        kani::assume(i <= len);
        let inc: bool = kani::any();
        match parse_ws(s, i, inc) {
            Ok(j) => { assert!(i <= j && j <= len); }
            Err((a, b)) => { assert!(a <= b && b <= len); }
        }
    }

    // reference skipper: Ok(j) or Err(pos)
    fn ref_ws(b: &[u8], mut i: usize, inc: bool) -> Result<usize, usize> {
        let n = b.len();
        let mut guard = 0;
        while i < n && guard < 5 {
            guard += 1;
            let c = b[i];
            if c == b' ' || c == b'\t' { i += 1; }
            else if c == b'\n' || c == b'\r' { if !inc { return Err(i); } i += 1; }
            else if c == b'/' {
                if i + 1 == n { break; }
                if b[i + 1] == b'/' {
                    i += 2;
                    while i < n { let d = b[i]; i += 1; if d == b'\n' || d == b'\r' { break; } }
                } else if b[i + 1] == b'*' {
                    let st = i;
                    let mut k = i + 2;
                    let mut found = false;
                    while k < n {
                        if (b[k] == b'\n' || b[k] == b'\r') && !inc { return Err(st); }
                        if b[k] == b'*' && k + 1 < n && b[k + 1] == b'/' { i = k + 2; found = true; break; }
                        k += 1;
                    }
                    if !found { return Err(st); }
                } else { break; }
            } else { break; }
        }
        Ok(i)
    }

    #[kani::proof]
    #[kani::unwind(6)]
    #[kani::stub(std::hash::RandomState::new, fixed_rs)]
    fn ws_block_comment_agrees() {
        const F: usize = 2;
        let mut buf = [b'/', b'*', 0, 0];
        let flen: usize = F;
        for i in 0..F {
            let c: u8 = kani::any();
            kani::assume(c == b' ' || c == b'\n' || c == b'/' || c == b'*' || c == b'a');
            buf[2 + i] = c;
        }
        let len = 2 + flen;
        let s = unsafe { std::str::from_utf8_unchecked(&buf[..len]) };
        let inc: bool = kani::any();
        let got = parse_ws(s, 0, inc);
        let exp = ref_ws(&buf[..len], 0, inc);
        match (got, exp) {
            (Ok(a), Ok(b)) => assert!(a == b),
            (Err((a, _)), Err(b)) => assert!(a == b),
            _ => assert!(false),
        }
    }
}
