#[cfg(kani)]
mod h {
    use cfgrammar::{NewlineCache, Span};
    const K: usize = 4; // max lines

    fn any_state() -> (NewlineCache, [usize; K], usize, usize) {
        let k: usize = kani::any();
        kani::assume(k >= 1 && k <= K);
        let mut nl = [0usize; K];
        let mut v = Vec::with_capacity(K);
        v.push(0);
        for i in 1..K {
            let x: usize = kani::any();
            kani::assume(x > nl[i - 1] && x < (1usize << 40));
            nl[i] = x;
            if i < k { v.push(x); }
        }
        let trailing: usize = kani::any();
        kani::assume(trailing < (1usize << 40));
        (NewlineCache::verif_from_raw(v, trailing), nl, k, trailing)
    }

    #[kani::proof]
    #[kani::unwind(6)]
    fn q_line_num() {
        let (c, nl, k, trailing) = any_state();
        let len = nl[k - 1] + trailing;
        let b: usize = kani::any();
        let r = c.byte_to_line_num(b);
        if b > len {
            assert!(r.is_none());
        } else {
            let mut cnt = 0;
            for i in 0..K { if i < k && nl[i] <= b { cnt += 1; } }
            assert!(r == Some(cnt));
        }
        std::mem::forget(c);
    }

    #[kani::proof]
    #[kani::unwind(6)]
    fn q_span_line_bytes() {
        let (c, nl, k, trailing) = any_state();
        let len = nl[k - 1] + trailing;
        let s: usize = kani::any();
        let e: usize = kani::any();
        kani::assume(s <= e && e <= len);
        let (st, en) = c.span_line_bytes(Span::new(s, e));
        // start of line containing s
        let mut exp_st = 0;
        for i in 0..K { if i < k && nl[i] <= s { exp_st = nl[i]; } }
        assert!(st == exp_st);
        // end of line containing position p: next line start - 1, or len
        let line_end = |p: usize| -> usize {
            let mut r = len;
            let mut i = K;
            while i > 0 { i -= 1; if i < k && nl[i] > p { r = nl[i] - 1; } }
            r
        };
        let a = line_end(e);
        let b = if e > s { line_end(e - 1) } else { a };
        assert!(en == a || en == b);
        std::mem::forget(c);
    }


    // chunk of up to 3 chars from {a, \n, \r, é(2B), €(3B)} encoded into buf; returns byte len
    fn any_chunk(buf: &mut [u8; 6]) -> usize {
        let n: usize = kani::any();
        kani::assume(n <= 2);
        let mut len = 0usize;
        for i in 0..2 {
            if i < n {
                let c: u8 = kani::any();
                kani::assume(c < 5);
                if c == 0 { buf[len] = b'a'; len += 1; }
                else if c == 1 { buf[len] = b'\n'; len += 1; }
                else if c == 2 { buf[len] = b'\r'; len += 1; }
                else if c == 3 { buf[len] = 0xC3; buf[len + 1] = 0xA9; len += 2; }
                else { buf[len] = 0xE2; buf[len + 1] = 0x82; buf[len + 2] = 0xAC; len += 3; }
            }
        }
        len
    }

    #[kani::proof]
    #[kani::unwind(8)]
    fn feed_step() {
        // pre-state with up to 3 lines
        let k: usize = 2;
        
        let mut nl = [0usize; 3];
        let mut v = Vec::with_capacity(8);
        v.push(0);
        for i in 1..3 {
            let x: usize = kani::any();
            kani::assume(x > nl[i - 1] && x < (1usize << 40));
            nl[i] = x;
            if i < k { v.push(x); }
        }
        let trailing: usize = kani::any();
        kani::assume(trailing < (1usize << 40));
        let mut c = NewlineCache::verif_from_raw(v, trailing);
        let start = nl[k - 1] + trailing;
        let mut buf = [0u8; 6];
        let len = any_chunk(&mut buf);
        let s = unsafe { std::str::from_utf8_unchecked(&buf[..len]) };
        c.feed(s);
        let (got, got_trailing) = c.verif_raw();
        // expected
        let mut exp = [0usize; 6];
        let mut m = 0;
        for i in 0..3 { if i < k { exp[m] = nl[i]; m += 1; } }
        let mut tr = trailing;
        for off in 0..6 { if off < len {
            if buf[off] == b'\n' { exp[m] = start + off + 1; m += 1; tr = 0; } else { tr += 1; }
        } }
        assert!(got.len() == m);
        for i in 0..6 { if i < m { assert!(got[i] == exp[i]); } }
        assert!(got_trailing == tr);
        kani::cover!(m == k + 2);
        std::mem::forget(c);
    }
    #[test]
    fn kani_concrete_playback_q_span_line_bytes_411720669161793993() {
        let concrete_vals: Vec<Vec<u8>> = vec![
            vec![4, 0, 0, 0, 0, 0, 0, 0],
            vec![8, 0, 0, 0, 0, 0, 0, 0],
            vec![9, 0, 0, 0, 0, 0, 0, 0],
            vec![236, 0, 0, 0, 4, 0, 0, 0],
            vec![31, 255, 255, 255, 251, 0, 0, 0],
            vec![8, 0, 0, 0, 0, 0, 0, 0],
            vec![236, 0, 0, 0, 4, 0, 0, 0],
        ];
        kani::concrete_playback_run(concrete_vals, q_span_line_bytes);
    }
}
